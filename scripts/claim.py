#!/usr/bin/env python3
"""claim.py <ID> <category> <technique> <text> <note>: add/replace a claimed check in scripts/manifest_table.json and regenerate MANIFEST.json"""
import json,sys,os,subprocess
p='/verif/scripts/manifest_table.json'
d=json.load(open(p)) if os.path.exists(p) else {"claimed":{},"not_applicable":{}}
i,cat,tech,text,note=sys.argv[1:6]
d["claimed"][i]=[cat,tech,text,note,"DESIGN.md 6 "+i]
json.dump(d,open(p,'w'),indent=1)
subprocess.check_call(['python3','/verif/scripts/gen_manifest.py'])
