#!/bin/bash
# scripts/verify_seeded.sh <ID> [dir]: confirm a sub-agent's seeded change in its scratch worktree:
#  suite passes with the change, demo fails with it, demo passes without it.
# Then store patch.diff, the demo and notes under /verif/seeded/<ID>/.
ID="$1"; WT="${2:-/tmp/wt/$ID}"; OUT=/verif/seeded/${3:-$ID}
export GOFLAGS=-mod=mod GOPROXY=off
mkdir -p "$OUT"; cd "$WT" || exit 2
DEMO=$(git status --porcelain | grep zz_seeded_demo_test.go | awk '{print $2}' | head -1)
[ -z "$DEMO" ] && { echo "no demo file" > "$OUT/verify.log"; exit 1; }
PKG=./$(dirname "$DEMO")/
git diff > "$OUT/patch.diff"
cp "$DEMO" "$OUT/$(basename "$DEMO")"; cp SEEDED_NOTES.md "$OUT/" 2>/dev/null
{
echo "== demo file: $DEMO  package: $PKG"
echo "== 1. demo WITH change (expect FAIL) x3"
f=0; for i in 1 2 3; do go test -vet=off -count=1 -run TestSeededDemo "$PKG" >/tmp/wt/$ID.demo.log 2>&1 || f=$((f+1)); done; echo "failed $f/3"; tail -5 /tmp/wt/$ID.demo.log
echo "== 2. suite WITH change (demo moved aside)"
mv "$DEMO" /tmp/wt/$ID.demo.go
go build ./... && go test -vet=off -count=1 -timeout 25m ./... 2>&1 | grep -v "^ok\|no test files" ; echo "suite rc=${PIPESTATUS[0]}"
mv /tmp/wt/$ID.demo.go "$DEMO"
echo "== 3. demo WITHOUT change (expect PASS) x3"
git diff > /tmp/wt/$ID.src.patch; git apply -R /tmp/wt/$ID.src.patch
p=0; for i in 1 2 3; do go test -vet=off -count=1 -run TestSeededDemo "$PKG" >/tmp/wt/$ID.demo2.log 2>&1 && p=$((p+1)); done; echo "passed $p/3"; tail -3 /tmp/wt/$ID.demo2.log
git apply /tmp/wt/$ID.src.patch
echo "RESULT fail_with=$f pass_without=$p"
} > "$OUT/verify.log" 2>&1
tail -1 "$OUT/verify.log"
