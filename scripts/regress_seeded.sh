#!/bin/bash
# scripts/regress_seeded.sh <slot> <ID>...: for each property ID run every stored seeded change of that property
# (seeded/<ID>, <ID>b, <ID>c, ...) against the quick check(s) named in its meta.json "detected_by" (falls back to
# the property's own check) in a scratch worktree /tmp/wt/reg<slot>; prints CAUGHT/MISSED per change.
slot="$1"; shift
for id in "$@"; do
  for d in /verif/seeded/${id} /verif/seeded/${id}[a-z]; do
    [ -f "$d/patch.diff" ] || continue
    checks=$(python3 -c "
import json,re,sys
m=json.load(open('$d/meta.json'))
c=re.findall(r'C\d\d', m['detected_by'].split(':')[0].split('(')[0])
print(' '.join(dict.fromkeys(c)) or '$id')")
    res=MISSED
    for c in $checks; do
      out=$(MUT_WT=/tmp/wt/reg$slot /verif/scripts/mutant_wt.sh "$d/patch.diff" $c 2>&1)
      if echo "$out" | grep -q "^VIOLATION"; then res="CAUGHT by $c ($(echo "$out" | grep -m1 signature= | sed 's/.*signature=//'))"; break; fi
    done
    echo "$(basename $d): $res"
  done
done
