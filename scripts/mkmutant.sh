#!/bin/bash
# scripts/mkmutant.sh <name> <file-in-repo> <sed-expr> [<file> <sed-expr>...]: make mutants/<name>.diff from sed edits (repo restored)
set -eu
name="$1"; shift
cd /repo
[ -z "$(git status --porcelain --untracked-files=no)" ] || { echo "/repo not clean"; exit 2; }
while [ $# -ge 2 ]; do sed -i -E "$2" "$1"; shift 2; done
git diff > /verif/mutants/$name.diff
git checkout -- .
[ -s /verif/mutants/$name.diff ] || { echo "empty diff"; exit 1; }
grep -c '^[-+][^-+]' /verif/mutants/$name.diff
