#!/usr/bin/env python3
"""Generates /verif/MANIFEST.json from the table below (kept next to the code so
that the manifest is valid at every commit). Run: python3 scripts/gen_manifest.py"""
import json, os, sys

HERE = os.path.dirname(os.path.dirname(os.path.abspath(__file__)))

# id -> (level category, technique, text, note, design_ref)
CLAIMED = {
 "C13": ("model_checking",
         "explicit-state BFS over operation histories on the real allocator vs. a reference model, canonical-state dedup",
         "Every history of allocate/release/release-peer over 3 peers x 3 amounts x 5 limit configurations up to the stated depth is executed on the real allocator.Allocator; in every reachable state the limits, the exact accounting (Stats, AllocatedForPeer) and the release-everything suffixes are compared with a reference model of the statement. Exhaustive within the bound, not sampled.",
         "Trusted: the reference model (60 lines, transcribes the statement), the canonical state key (reflect dump of all private fields), sequential calls only (the allocator serialises callers with one lock).",
         "DESIGN.md 6 C13"),
 "C14": ("model_checking",
         "explicit-state BFS over operation histories on the real allocator vs. a reference model, canonical-state dedup",
         "Same state space as C13; after every step the set of resolved result channels and their values (granted / failed / still waiting) must equal the reference model's, so an early, late, out-of-order, lost or duplicated grant in any reachable state is reported.",
         "Trusted: reference model (heads-only reading of 'ahead of it'), canonical key, sequential calls.",
         "DESIGN.md 6 C14"),
 "C02": ("exploration",
         "bounded-exhaustive enumeration of DAG shapes x selectors x store splits, each executed on two real instances, vs. an independent reference traversal",
         "Every shape of the catalogue (all reachable edge sets over <=N blocks, link forms direct/inline/nested/list, field order, raw leaves, duplicate links), every selector of the catalogue and every one of the 4^N splits of the blocks between the two stores is run as one real two-node exchange through the real wire encoding; delivered nodes (in order), missing-block errors and the final store are compared with go-ipld-prime's own walker over the statement's loading rule. Exhaustive over the stated finite space; not a proof for larger DAGs.",
         "Trusted: go-ipld-prime's walker as the meaning of selector traversal; the fake FIFO lossless network; the full enumeration runs under the default schedule, 11 mixed splits additionally under every schedule within deviation bound 1 (thorough 2). Two genuine defects are recorded as known findings (responder lacks root; skip window misaligned), one was repaired (fix: path-length heuristic).",
         "DESIGN.md 6 C02"),
 "C15": ("model_checking",
         "stateless deviation-bounded DFS over schedules and injected send/connect failures of the real assembler->queue->allocator pipeline under a controlled scheduler",
         "Scripts of response transactions (small blocks, 300KiB blocks that force several builders, the same block for two requests, extension data, finish) run against the real ResponseAssembler, PeerMessageManager, MessageQueue, notifications publisher and Allocator; every schedule and every placement of send/connect failures within the deviation bound (2 quick, 3 thorough) is executed. Oracle: no reservation failed before data was queued, and at the idle point (connection up, nothing queued) the peer's accounted memory and the allocator's totals are zero; a driver stalled forever on memory is reported. Five genuine defects are recorded as known findings, one repaired.",
         "Trusted: vsched's model of Go synchronisation, data-race freedom between scheduling points, one map-iteration order, the fake MessageNetwork. Bounded: <=6 transactions, <=2 requests, deviation bound as stated.",
         "DESIGN.md 6 C15"),
 "C16": ("model_checking",
         "stateless deviation-bounded DFS over schedules, queue shutdowns and injected send/connect failures on the real message queue and publisher",
         "Driver threads queue requests and response transactions while another thread disconnects the peer; send and connect failures are environment choices and dials/writes are in-flight scheduling points. Every (builder, subscriber) attachment is given a recording proxy; at final quiescence each attachment that was not scrubbed must have seen exactly one Sent or Error. All schedules within the deviation bound (2, selected scenarios 3; thorough 3) are executed.",
         "Trusted: as C15. The scrub exemption of DESIGN 7 applies. One genuine defect (messages left in a shut-down queue) is a known finding.",
         "DESIGN.md 6 C16"),
 "C17": ("model_checking",
         "stateless deviation-bounded DFS over interleavings of Connected/Disconnected, queue self-shutdown and concurrent sends on the real PeerMessageManager + MessageQueue",
         "Two or three driver threads (connect/disconnect sequences; numbered sends) plus every valid single-threaded operation sequence up to length 4 (5 thorough) over {Connected, Disconnected, send} with connect/send failures as environment choices. Oracles: at every queue creation no other queue of the peer is live; after a final Connected/Disconnected pair and quiescence no queue goroutine is alive; per driver thread, items leave in build order and never by two queues at once. All schedules within deviation bound 2 (3 for the core scenario; thorough 3).",
         "Trusted: as C15. 'live' = started and not yet told to shut down (DESIGN 7). One defect repaired (successor entry deleted), one recorded (old queue still sending after disconnect).",
         "DESIGN.md 6 C17"),
 "C07": ("exploration",
         "bounded-exhaustive enumeration of DAG shapes x selectors x budgets 1..needed+1 x 8 budget placements (global/per-request hook, either peer, two competing budgets), each executed on two real instances, vs. the reference traversal's block count",
         "Chains, trees and catalogue shapes x selectors x every budget from 1 to needed+1 x placement (requestor global, requestor per-request hook, responder global, responder hook, and both set with the smaller non-zero expected to win), also with the requestor holding everything locally and with several sequential requests on the same instances. Oracle: the enforcing peer loads at most N blocks (requestor: block-hook/visit count, responder: metadata count), no budget failure when needed<=N, exactly N blocks then a budget-exceeded error/failure status when needed>N.",
         "Trusted: reference traversal for 'needed'; default schedule. One genuine defect repaired (fix: budget 1 failed before the root block).",
         "DESIGN.md 6 C07"),
 "C24": ("exploration",
         "bounded-exhaustive enumeration of DAG shapes x selectors x every requestor-local subset x user do-not-send extensions, each executed on two real instances with a wire monitor, vs. the reference traversal",
         "Shape catalogue x selectors x every subset of blocks in the requestor's store (responder holds all) x user-supplied {none, do-not-send-first-blocks k, do-not-send-cids S, both}. Oracle: local store complete => no message leaves the requestor; else the first New request's skip value = max(user k, #blocks loaded locally before the first miss), absent when 0; no wire block lies wholly inside the skipped prefix, is in the ignore set, is outside the traversal, or is transmitted twice within the request.",
         "Trusted: reference traversal, default schedule, FIFO lossless fake network.",
         "DESIGN.md 6 C24"),
}

# properties not (yet) claimed -> reason
NOT_YET = "check not built yet in this revision of /verif (planned: see DESIGN.md section 6); no claim is made"

def main():
    props = [json.loads(l) for l in open(os.path.join(HERE, "properties.jsonl"))]
    extra = {}
    p = os.path.join(HERE, "scripts", "manifest_table.json")
    if os.path.exists(p):
        extra = json.load(open(p))
    claimed = dict(CLAIMED)
    for k, v in extra.get("claimed", {}).items():
        claimed[k] = tuple(v)
    na_reasons = extra.get("not_applicable", {})
    checks, na = [], []
    for pr in props:
        i = pr["id"]
        if i in claimed:
            cat, tech, text, note, ref = claimed[i]
            checks.append({
                "property_id": i,
                "quick_cmd": "./run.sh %s quick" % i,
                "thorough_cmd": "./run.sh %s thorough" % i,
                "evidence_file": "/verif/evidence/%s.json" % i,
                "replay_cmd_template": "./run.sh replay {path}",
                "engine": "vsched+explorer",
                "level_claimed": {"category": cat, "text": text, "design_ref": ref},
                "level_note": note,
                "technique": tech,
            })
        else:
            na.append({"property_id": i, "reason": na_reasons.get(i, NOT_YET)})
    m = {
        "version": 1,
        "setup_cmd": "./run.sh setup",
        "hooks": {
            "guard": "verif",
            "enable": "no hooks are committed in /repo: instrumentation is generated from /repo's working tree by cmd/vrewrite on every check run and applied with `go1.26.8 build -overlay` (DESIGN.md 2.1); the build tag `verif` is reserved and unused",
            "baseline_off_cmd": "cd /repo && GOFLAGS=-mod=mod go test -json -vet=off -count=1 -timeout 25m ./...",
            "source_commits": [],
            "add_only": True,
        },
        "engines": [
            {"name": "vsched+explorer", "path": "/verif/shim/vsched, /verif/core, /verif/cmd/vrewrite",
             "serves_properties": sorted(claimed.keys()),
             "kind_free_text": "hand-written stateless model checker for Go: syntactic rewriter (go build -overlay) routes every mutex/cond/channel/select/go/timer operation of the repository through a cooperative scheduler over real channels; deviation-/pre-emption-bounded DFS with iterative bounds; explicit-state BFS by history replay on fresh real objects with canonical reflect-dump state keys; bounded-exhaustive input enumeration against reference models"},
        ],
        "checks": checks,
        "not_applicable": na,
        "notes": "All checks rebuild from /repo's current working tree (run.sh regenerates the overlay and rebuilds). Exit 0 held / 1 VIOLATION / 2 engine error. known_findings.json lists genuine defects recorded rather than repaired.",
    }
    json.dump(m, open(os.path.join(HERE, "MANIFEST.json"), "w"), indent=1)
    print("claimed:", len(checks), "not_applicable:", len(na))

main()
