#!/bin/bash
# scripts/run_all.sh [quick|thorough]: every claimed check in turn on /repo; prints one summary line each.
T="${1:-quick}"
cd /verif || exit 2
./run.sh setup >/dev/null || exit 2
rc=0
for id in $(python3 -c "import json;print(' '.join(c['property_id'] for c in json.load(open('MANIFEST.json'))['checks']))"); do
  out=$(./run.sh "$id" "$T" 2>&1); r=$?
  echo "$out" | grep -E "^(VIOLATION|check |ENGINE)" | head -5
  [ $r -ne 0 ] && rc=1
done
exit $rc
