#!/bin/bash
# scripts/check_findings.sh: replay every stored finding artefact (findings/<ID>/*.json) against /repo and
# report the ones that no longer reproduce the signature they were stored with (stale artefacts).
cd /verif
rc=0
for f in findings/*/*.json; do
  want=$(python3 -c "import json,sys; print(json.load(open('$f')).get('signature',''))")
  got=$(VERIF_FINDINGS_FILE=/dev/null ./run.sh replay "$f" 2>&1 | tail -1)
  case "$got" in
    "$want"*) echo "ok    $f" ;;
    *) echo "STALE $f: want [$want] got [${got:0:160}]"; rc=1 ;;
  esac
done
exit $rc
