#!/usr/bin/env python3
"""add_finding.py <property> <signature> <known|fixed> <what> [commit|replay]"""
import json,sys
p='/verif/known_findings.json'
d=json.load(open(p))
prop,sig,status,what=sys.argv[1:5]
e={"property":prop,"signature":sig,"status":status,"what":what}
if status=='fixed':
    e["commit"]=sys.argv[5]; e["line"]="fixed: property=%s %s %s"%(prop,sys.argv[5],what)
elif len(sys.argv)>5:
    e["replay"]=sys.argv[5]
d["findings"]=[f for f in d["findings"] if not (f["property"]==prop and f["signature"]==sig)]+[e]
json.dump(d,open(p,'w'),indent=1)
