#!/bin/bash
# scripts/mutant.sh <patch.diff> <ID> [<ID>...]: apply a property-breaking patch to /repo,
# run the quick checks, and ALWAYS restore /repo afterwards.
set -u
P="$(realpath "$1")"; shift
cd /repo || exit 2
if [ -n "$(git status --porcelain --untracked-files=no)" ]; then echo "/repo not clean"; exit 2; fi
git apply "$P" || { echo "patch does not apply"; exit 2; }
trap 'git -C /repo checkout -- . ; git -C /repo clean -fdq -e testplans/graphsync/graphsync >/dev/null 2>&1' EXIT
for id in "$@"; do
  echo "== $id on mutant $(basename "$(dirname "$P")")/$(basename "$P")"
  VERIF_BUDGET="${VERIF_BUDGET:-}" /verif/run.sh "$id" "${TIER:-quick}" 2>&1 | grep -E "^(VIOLATION|KNOWN-FINDING|check |ENGINE|  signature)" 
done
