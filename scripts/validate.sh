#!/bin/bash
# validates MANIFEST.json and every evidence file against the given schemas
python3-vt - <<'PY'
import json,jsonschema,glob,sys
jsonschema.validate(json.load(open('/verif/MANIFEST.json')),json.load(open('/root/.vp/MANIFEST.schema.json')));print('manifest ok')
s=json.load(open('/root/.vp/EVIDENCE.schema.json'))
for f in sorted(glob.glob('/verif/evidence/*.json')):
    try: jsonschema.validate(json.load(open(f)),s)
    except Exception as e: print('BAD',f,str(e)[:300]); continue
print('evidence ok')
PY
