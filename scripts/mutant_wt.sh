#!/bin/bash
# scripts/mutant_wt.sh <patch.diff> <ID> [<ID>...]: like mutant.sh but applies the patch in a scratch
# worktree (/tmp/wt/mut) and points the checks at it (VERIF_REPO), leaving /repo untouched.
# evidence/<ID>.json is saved and restored around each run (it must only ever describe runs on /repo).
set -u
P="$(realpath "$1")"; shift
WT=${MUT_WT:-/tmp/wt/mut}
git -C /repo worktree remove --force $WT >/dev/null 2>&1
git -C /repo worktree add -q --detach $WT HEAD || exit 2
trap 'git -C /repo worktree remove --force $WT >/dev/null 2>&1; rm -rf /verif/.work/alt-$(echo "$WT" | md5sum | cut -c1-8)' EXIT
git -C $WT apply "$P" || { echo "patch does not apply"; exit 2; }
for id in "$@"; do
  echo "== $id on mutant $(basename "$(dirname "$P")")/$(basename "$P") (worktree)"
  cp /verif/evidence/$id.json /tmp/wt/$id.evidence.keep 2>/dev/null
  VERIF_REPO=$WT VERIF_BUDGET="${VERIF_BUDGET:-}" /verif/run.sh "$id" "${TIER:-quick}" 2>&1 | grep -E "^(VIOLATION|KNOWN-FINDING|check |ENGINE|  signature)"
  cp /tmp/wt/$id.evidence.keep /verif/evidence/$id.json 2>/dev/null
done
