module verif

go 1.26.8

require (
	github.com/ipfs/go-block-format v0.2.4
	github.com/ipfs/go-cid v0.6.2
	github.com/ipfs/go-graphsync v0.0.0
	github.com/ipfs/go-log/v2 v2.9.2
	github.com/ipfs/go-peertaskqueue v0.8.3
	github.com/ipld/go-codec-dagpb v1.7.0
	github.com/ipld/go-ipld-prime v0.24.0
	github.com/libp2p/go-libp2p v0.48.0
	github.com/libp2p/go-msgio v0.3.0
	github.com/multiformats/go-multihash v0.2.3
)

require (
	github.com/cespare/xxhash/v2 v2.3.0 // indirect
	github.com/decred/dcrd/dcrec/secp256k1/v4 v4.4.1 // indirect
	github.com/go-logr/logr v1.4.3 // indirect
	github.com/go-logr/stdr v1.2.2 // indirect
	github.com/google/uuid v1.6.0 // indirect
	github.com/hannahhoward/go-pubsub v0.0.0-20200423002714-8d62886cc36e // indirect
	github.com/ipfs/boxo v0.41.0 // indirect
	github.com/ipfs/go-ipfs-pq v0.0.4 // indirect
	github.com/klauspost/cpuid/v2 v2.3.0 // indirect
	github.com/libp2p/go-buffer-pool v0.1.0 // indirect
	github.com/mattn/go-isatty v0.0.22 // indirect
	github.com/mr-tron/base58 v1.3.0 // indirect
	github.com/multiformats/go-base32 v0.1.0 // indirect
	github.com/multiformats/go-base36 v0.2.0 // indirect
	github.com/multiformats/go-multiaddr v0.16.1 // indirect
	github.com/multiformats/go-multibase v0.3.0 // indirect
	github.com/multiformats/go-multicodec v0.10.0 // indirect
	github.com/multiformats/go-multistream v0.6.1 // indirect
	github.com/multiformats/go-varint v0.1.0 // indirect
	github.com/polydawn/refmt v0.90.0 // indirect
	github.com/spaolacci/murmur3 v1.1.0 // indirect
	go.opentelemetry.io/auto/sdk v1.2.1 // indirect
	go.opentelemetry.io/otel v1.44.0 // indirect
	go.opentelemetry.io/otel/metric v1.44.0 // indirect
	go.opentelemetry.io/otel/trace v1.44.0 // indirect
	go.uber.org/multierr v1.11.0 // indirect
	go.uber.org/zap v1.28.0 // indirect
	golang.org/x/crypto v0.53.0 // indirect
	golang.org/x/exp v0.0.0-20260603202125-055de637280b // indirect
	golang.org/x/sys v0.46.0 // indirect
	google.golang.org/protobuf v1.36.11 // indirect
	lukechampine.com/blake3 v1.4.1 // indirect
)

replace github.com/ipfs/go-graphsync => /repo
