// vrewrite: purely syntactic rewriter turning sync/chan/select/go/time operations
// of the concurrency-bearing go-graphsync packages into calls to the vsched shim
// (DESIGN.md 3.1). It reads /repo's *current working tree*, writes rewritten
// copies plus an overlay.json for `go build -overlay`; /repo is never modified.
// It also emits the two patched GOROOT files that make small-map iteration
// deterministic (DESIGN.md 3.3) and any extra overlay files given with -extra.
package main

import (
	"bytes"
	"encoding/json"
	"flag"
	"fmt"
	"go/ast"
	"go/format"
	"go/parser"
	"go/token"
	"os"
	"path/filepath"
	"reflect"
	"strconv"
	"strings"
)

var (
	repo    = flag.String("repo", "/repo", "")
	pkgs    = flag.String("pkgs", "allocator,ipldutil,messagequeue,notifications,peermanager,persistenceoptions,requestmanager,requestmanager/executor,requestmanager/reconciledloader,responsemanager,responsemanager/queryexecutor,responsemanager/responseassembler,taskqueue,network,impl", "comma separated dirs relative to repo")
	also    = flag.String("also", "", "comma separated absolute dirs (harness packages) rewritten the same way")
	extra   = flag.String("extra", "", "dir whose tree is overlaid onto the repo (added files only)")
	goroot  = flag.String("goroot", "/opt/veriftools/go1.26.8", "GOROOT whose map iteration is made deterministic ('' = skip)")
	out     = flag.String("out", "", "dir for rewritten files")
	shimDir = flag.String("shimdir", "", "dir with shim package sources (vsched, vsync)")
	modPath = flag.String("mod", "github.com/ipfs/go-graphsync", "")
)

const shimRel = "zzverif"

type rw struct {
	fset      *token.FileSet
	rel       string
	needSched bool
	selCount  int
}

func main() {
	flag.Parse()
	overlay := map[string]string{}
	for _, p := range strings.Split(*pkgs, ",") {
		dir := filepath.Join(*repo, p)
		ents, err := os.ReadDir(dir)
		if err != nil {
			panic(err)
		}
		for _, e := range ents {
			n := e.Name()
			if e.IsDir() || !strings.HasSuffix(n, ".go") || strings.HasSuffix(n, "_test.go") {
				continue
			}
			src := filepath.Join(dir, n)
			dst := filepath.Join(*out, p, n)
			if err := rewriteFile(src, dst, filepath.Join(p, n)); err != nil {
				panic(fmt.Sprintf("%s: %v", src, err))
			}
			overlay[src] = dst
		}
	}
	for _, dir := range strings.Split(*also, ",") {
		if dir == "" {
			continue
		}
		ents, err := os.ReadDir(dir)
		if err != nil {
			panic(err)
		}
		for _, e := range ents {
			n := e.Name()
			if e.IsDir() || !strings.HasSuffix(n, ".go") || strings.HasSuffix(n, "_test.go") {
				continue
			}
			src := filepath.Join(dir, n)
			dst := filepath.Join(*out, "also", filepath.Base(dir), n)
			if err := rewriteFile(src, dst, filepath.Join(filepath.Base(dir), n)); err != nil {
				panic(fmt.Sprintf("%s: %v", src, err))
			}
			overlay[src] = dst
		}
	}
	// virtual shim packages inside the repo module
	for _, sp := range []string{"vsched", "vsync"} {
		ents, _ := os.ReadDir(filepath.Join(*shimDir, sp))
		for _, e := range ents {
			overlay[filepath.Join(*repo, shimRel, sp, e.Name())] = filepath.Join(*shimDir, sp, e.Name())
		}
	}
	if *extra != "" {
		filepath.Walk(*extra, func(path string, info os.FileInfo, err error) error {
			if err == nil && !info.IsDir() && strings.HasSuffix(path, ".go") {
				rel, _ := filepath.Rel(*extra, path)
				overlay[filepath.Join(*repo, rel)] = path
			}
			return nil
		})
	}
	if *goroot != "" {
		patchMaps(overlay)
	}
	b, _ := json.MarshalIndent(map[string]any{"Replace": overlay}, "", " ")
	os.WriteFile(filepath.Join(*out, "overlay.json"), b, 0o644)
}

func rewriteFile(src, dst, rel string) error {
	fset := token.NewFileSet()
	f, err := parser.ParseFile(fset, src, nil, parser.ParseComments)
	if err != nil {
		return err
	}
	r := &rw{fset: fset, rel: rel}
	// imports
	timeName := ""
	for _, im := range f.Imports {
		p, _ := strconv.Unquote(im.Path.Value)
		switch p {
		case "sync":
			im.Path.Value = strconv.Quote(*modPath + "/" + shimRel + "/vsync")
			if im.Name == nil {
				im.Name = ast.NewIdent("sync")
			}
		case "time":
			timeName = "time"
			if im.Name != nil {
				timeName = im.Name.Name
			}
		}
	}
	usesTimeOther := false
	r.walk(reflect.ValueOf(f), timeName, &usesTimeOther)
	for _, im := range f.Imports {
		if strings.HasSuffix(im.Path.Value, shimRel+"/vsched\"") && (im.Name == nil || im.Name.Name == "vsched") {
			r.needSched = false
		}
	}
	if r.needSched {
		addImport(f, "vsched", *modPath+"/"+shimRel+"/vsched")
	}
	if timeName != "" && !usesTimeOther {
		// time import may have become unused
		addBlankUse(f, timeName)
	}
	var buf bytes.Buffer
	// comments get misplaced by heavy rewriting; drop free-floating comments but keep directives (go:embed etc.)
	keepDirectives(f)
	if err := format.Node(&buf, fset, f); err != nil {
		return err
	}
	os.MkdirAll(filepath.Dir(dst), 0o755)
	return os.WriteFile(dst, buf.Bytes(), 0o644)
}

func keepDirectives(f *ast.File) {
	var kept []*ast.CommentGroup
	for _, cg := range f.Comments {
		for _, c := range cg.List {
			if strings.HasPrefix(c.Text, "//go:") {
				kept = append(kept, cg)
				break
			}
		}
	}
	f.Comments = kept
}

func addImport(f *ast.File, name, path string) {
	spec := &ast.ImportSpec{Name: ast.NewIdent(name), Path: &ast.BasicLit{Kind: token.STRING, Value: strconv.Quote(path)}}
	gd := &ast.GenDecl{Tok: token.IMPORT, Specs: []ast.Spec{spec}}
	f.Decls = append([]ast.Decl{gd}, f.Decls...)
}

func addBlankUse(f *ast.File, timeName string) {
	// var _ = time.Now
	f.Decls = append(f.Decls, &ast.GenDecl{Tok: token.VAR, Specs: []ast.Spec{&ast.ValueSpec{
		Names:  []*ast.Ident{ast.NewIdent("_")},
		Values: []ast.Expr{sel(timeName, "Now")},
	}}})
}

func sel(x, s string) *ast.SelectorExpr {
	return &ast.SelectorExpr{X: ast.NewIdent(x), Sel: ast.NewIdent(s)}
}

func call(fn ast.Expr, args ...ast.Expr) *ast.CallExpr {
	return &ast.CallExpr{Fun: fn, Args: args}
}

var (
	exprT = reflect.TypeOf((*ast.Expr)(nil)).Elem()
	stmtT = reflect.TypeOf((*ast.Stmt)(nil)).Elem()
)

// walk recursively visits every field; replaces Expr / Stmt values post-order.
func (r *rw) walk(v reflect.Value, timeName string, usesTimeOther *bool) {
	switch v.Kind() {
	case reflect.Ptr:
		if v.IsNil() {
			return
		}
		if _, ok := v.Interface().(*ast.Object); ok {
			return
		}
		if _, ok := v.Interface().(*ast.Scope); ok {
			return
		}
		r.walk(v.Elem(), timeName, usesTimeOther)
	case reflect.Interface:
		if v.IsNil() {
			return
		}
		r.walk(v.Elem(), timeName, usesTimeOther)
	case reflect.Slice:
		for i := 0; i < v.Len(); i++ {
			r.visitSlot(v.Index(i), timeName, usesTimeOther)
		}
	case reflect.Struct:
		// do not descend into select comm clause headers with the generic rules:
		if cc, ok := v.Addr().Interface().(*ast.CommClause); ok {
			// bodies only; header channel/value sub-expressions handled by select rewrite
			r.walkCommHeader(cc, timeName, usesTimeOther)
			for i := range cc.Body {
				r.visitSlot(reflect.ValueOf(&cc.Body[i]).Elem(), timeName, usesTimeOther)
			}
			return
		}
		for i := 0; i < v.NumField(); i++ {
			f := v.Field(i)
			if !f.CanSet() {
				continue
			}
			r.visitSlot(f, timeName, usesTimeOther)
		}
	}
}

func (r *rw) walkCommHeader(cc *ast.CommClause, timeName string, u *bool) {
	switch c := cc.Comm.(type) {
	case *ast.SendStmt:
		r.visitSlot(reflect.ValueOf(&c.Chan).Elem(), timeName, u)
		r.visitSlot(reflect.ValueOf(&c.Value).Elem(), timeName, u)
	case *ast.ExprStmt:
		ue := c.X.(*ast.UnaryExpr)
		r.visitSlot(reflect.ValueOf(&ue.X).Elem(), timeName, u)
	case *ast.AssignStmt:
		ue := c.Rhs[0].(*ast.UnaryExpr)
		r.visitSlot(reflect.ValueOf(&ue.X).Elem(), timeName, u)
	}
}

func (r *rw) visitSlot(slot reflect.Value, timeName string, u *bool) {
	// descend first
	r.walk(slot, timeName, u)
	if slot.Kind() != reflect.Interface || slot.IsNil() || !slot.CanSet() {
		return
	}
	if slot.Type() == exprT {
		if ne := r.rewriteExpr(slot.Interface().(ast.Expr), timeName, u); ne != nil {
			slot.Set(reflect.ValueOf(ne))
		}
	} else if slot.Type() == stmtT {
		if ns := r.rewriteStmt(slot.Interface().(ast.Stmt)); ns != nil {
			slot.Set(reflect.ValueOf(ns))
		}
	}
}

var timeShim = map[string]bool{"After": true, "NewTicker": true, "NewTimer": true, "Ticker": true, "Timer": true, "Sleep": true, "Tick": true, "AfterFunc": true}

func (r *rw) rewriteExpr(e ast.Expr, timeName string, u *bool) ast.Expr {
	switch x := e.(type) {
	case *ast.UnaryExpr:
		if x.Op == token.ARROW {
			r.needSched = true
			return call(sel("vsched", "Recv"), x.X)
		}
	case *ast.CallExpr:
		if id, ok := x.Fun.(*ast.Ident); ok && id.Name == "close" && len(x.Args) == 1 {
			r.needSched = true
			return call(sel("vsched", "Close"), x.Args[0])
		}
	case *ast.SelectorExpr:
		if id, ok := x.X.(*ast.Ident); ok && timeName != "" && id.Name == timeName && id.Obj == nil {
			if timeShim[x.Sel.Name] {
				r.needSched = true
				return sel("vsched", x.Sel.Name)
			}
			*u = true
		}
	}
	return nil
}

func (r *rw) rewriteStmt(s ast.Stmt) ast.Stmt {
	switch x := s.(type) {
	case *ast.GoStmt:
		r.needSched = true
		fn := &ast.FuncLit{Type: &ast.FuncType{Params: &ast.FieldList{}}, Body: &ast.BlockStmt{List: []ast.Stmt{&ast.ExprStmt{X: x.Call}}}}
		site := fmt.Sprintf("%s:%d", r.rel, r.fset.Position(x.Pos()).Line)
		return &ast.ExprStmt{X: call(sel("vsched", "GoN"), &ast.BasicLit{Kind: token.STRING, Value: strconv.Quote(site)}, fn)}
	case *ast.DeferStmt:
		if id, ok := x.Call.Fun.(*ast.Ident); ok && id.Name == "close" && len(x.Call.Args) == 1 {
			r.needSched = true
			x.Call.Fun = sel("vsched", "Close")
		}
	case *ast.SendStmt:
		r.needSched = true
		return &ast.ExprStmt{X: call(sel("vsched", "Send"), x.Chan, x.Value)}
	case *ast.AssignStmt:
		// v, ok := <-ch  (already rewritten to vsched.Recv(ch) by expr pass) -> Recv2
		if len(x.Lhs) == 2 && len(x.Rhs) == 1 {
			if c, ok := x.Rhs[0].(*ast.CallExpr); ok {
				if se, ok := c.Fun.(*ast.SelectorExpr); ok {
					if id, ok := se.X.(*ast.Ident); ok && id.Name == "vsched" && se.Sel.Name == "Recv" {
						se.Sel.Name = "Recv2"
					}
				}
			}
		}
	case *ast.LabeledStmt:
		if b, ok := x.Stmt.(*ast.BlockStmt); ok && len(b.List) > 0 {
			// select wrapped by us: move label onto inner select
			if ss, ok := b.List[len(b.List)-1].(*ast.SelectStmt); ok && isOurs(b) {
				b.List[len(b.List)-1] = &ast.LabeledStmt{Label: x.Label, Stmt: ss}
				return b
			}
		}
	case *ast.SelectStmt:
		return r.rewriteSelect(x)
	}
	return nil
}

func isOurs(b *ast.BlockStmt) bool {
	if as, ok := b.List[0].(*ast.AssignStmt); ok && len(as.Lhs) == 1 {
		if id, ok := as.Lhs[0].(*ast.Ident); ok && (strings.HasPrefix(id.Name, "vsel") || strings.HasPrefix(id.Name, "vc")) {
			return true
		}
	}
	return false
}

func (r *rw) rewriteSelect(s *ast.SelectStmt) ast.Stmt {
	r.needSched = true
	r.selCount++
	id := r.selCount
	var pre []ast.Stmt
	var cases []ast.Expr
	hasDefault := "false"
	selName := fmt.Sprintf("vsel%d", id)
	for i, cl := range s.Body.List {
		cc := cl.(*ast.CommClause)
		cc.Body = append([]ast.Stmt{&ast.ExprStmt{X: call(&ast.SelectorExpr{X: ast.NewIdent(selName), Sel: ast.NewIdent("Done")})}}, cc.Body...)
		if cc.Comm == nil {
			hasDefault = "true"
			continue
		}
		vc := fmt.Sprintf("vc%d_%d", id, i)
		idx := &ast.BasicLit{Kind: token.INT, Value: strconv.Itoa(len(cases))}
		switch c := cc.Comm.(type) {
		case *ast.SendStmt:
			pre = append(pre, define(vc, c.Chan))
			cases = append(cases, call(sel("vsched", "SendCase"), ast.NewIdent(vc)))
			c.Chan = call(sel("vsched", "PickS"), ast.NewIdent(selName), idx, ast.NewIdent(vc))
		case *ast.ExprStmt:
			ue := c.X.(*ast.UnaryExpr)
			pre = append(pre, define(vc, ue.X))
			cases = append(cases, call(sel("vsched", "RecvCase"), ast.NewIdent(vc)))
			ue.X = call(sel("vsched", "PickR"), ast.NewIdent(selName), idx, ast.NewIdent(vc))
		case *ast.AssignStmt:
			ue := c.Rhs[0].(*ast.UnaryExpr)
			pre = append(pre, define(vc, ue.X))
			cases = append(cases, call(sel("vsched", "RecvCase"), ast.NewIdent(vc)))
			ue.X = call(sel("vsched", "PickR"), ast.NewIdent(selName), idx, ast.NewIdent(vc))
		}
	}
	args := append([]ast.Expr{ast.NewIdent(hasDefault)}, cases...)
	pre = append(pre, define(selName, call(sel("vsched", "Select"), args...)))
	return &ast.BlockStmt{List: append(pre, s)}
}

func define(name string, e ast.Expr) ast.Stmt {
	return &ast.AssignStmt{Lhs: []ast.Expr{ast.NewIdent(name)}, Tok: token.DEFINE, Rhs: []ast.Expr{e}}
}

// patchMaps writes copies of two runtime map files with iteration randomisation
// removed; aborts if the expected lines are absent.
func patchMaps(overlay map[string]string) {
	type rep struct{ old, new string; min int }
	files := map[string][]rep{
		"src/internal/runtime/maps/table.go": {
			{"it.entryOffset = rand()", "it.entryOffset = 0", 1},
			{"it.dirOffset = rand()", "it.dirOffset = 0", 1},
		},
		"src/internal/runtime/maps/map.go": {
			{"m.seed = uintptr(rand())", "m.seed = uintptr(0x9e3779b9)", 3},
		},
	}
	for rel, reps := range files {
		src := filepath.Join(*goroot, rel)
		b, err := os.ReadFile(src)
		if err != nil {
			panic(err)
		}
		txt := string(b)
		for _, r := range reps {
			if strings.Count(txt, r.old) < r.min {
				panic(fmt.Sprintf("vrewrite: %s: expected %q at least %d times", src, r.old, r.min))
			}
			txt = strings.ReplaceAll(txt, r.old, r.new)
		}
		dst := filepath.Join(*out, "goroot", rel)
		os.MkdirAll(filepath.Dir(dst), 0o755)
		if err := os.WriteFile(dst, []byte(txt), 0o644); err != nil {
			panic(err)
		}
		overlay[src] = dst
	}
}
