// check: one binary holding every property check; built with the overlay
// generated from /repo's current working tree (see run.sh).
package main

import (
	logging "github.com/ipfs/go-log/v2"

	"verif/core"
	_ "verif/props"
)

func main() {
	logging.SetAllLoggers(logging.LevelFatal)
	core.Main()
}
