package harness

import (
	"context"
	"fmt"
	"sort"
	"strings"

	"github.com/ipfs/go-graphsync"
	gsimpl "github.com/ipfs/go-graphsync/impl"
	"github.com/ipld/go-ipld-prime"
	"github.com/ipld/go-ipld-prime/datamodel"
	"github.com/libp2p/go-libp2p/core/peer"
)

// Fixture: real GraphSync instances on the fake network. All of this is meant
// to run inside a vsched.Run body (the harness package is itself rewritten, so
// plain go/select/channel operations here are scheduler-aware).

type Fixture struct {
	Ctx    context.Context
	Cancel context.CancelFunc
	Net    *Net
	Nodes  map[peer.ID]*Node
}

type Node struct {
	ID    peer.ID
	GS    graphsync.GraphExchange
	NN    *NetNode
	Store *Store
	Rec   *Recorder
}

// Recorder collects every listener/hook notification as a pure record.
type Recorder struct {
	Events       []string
	Completed    map[graphsync.RequestID][]graphsync.ResponseStatusCode
	Cancelled    map[graphsync.RequestID]int
	NetErr       map[graphsync.RequestID]int
	BlocksSent   map[graphsync.RequestID]int
	InBlocks     map[graphsync.RequestID]int // requestor: incoming block hook calls
	InBlockLinks map[graphsync.RequestID][]ipld.Link
	RespHooks    []string // requestor: incoming response hook calls "peer/id/status"
	ReqHooks     int
	Panics       []string
	RecvErrs     int
}

func newRecorder() *Recorder {
	return &Recorder{Completed: map[graphsync.RequestID][]graphsync.ResponseStatusCode{}, Cancelled: map[graphsync.RequestID]int{},
		NetErr: map[graphsync.RequestID]int{}, BlocksSent: map[graphsync.RequestID]int{}, InBlocks: map[graphsync.RequestID]int{},
		InBlockLinks: map[graphsync.RequestID][]ipld.Link{}}
}

func NewFixture(gated bool) *Fixture {
	ctx, cancel := context.WithCancel(context.Background())
	n := NewNet()
	n.Gated = gated
	return &Fixture{Ctx: ctx, Cancel: cancel, Net: n, Nodes: map[peer.ID]*Node{}}
}

// AddNode starts a real GraphSync instance.
func (f *Fixture) AddNode(id peer.ID, store *Store, opts ...gsimpl.Option) *Node {
	nn := f.Net.Node(id)
	rec := newRecorder()
	opts = append([]gsimpl.Option{gsimpl.PanicCallback(func(r interface{}, stack string) {
		rec.Panics = append(rec.Panics, fmt.Sprint(r))
	})}, opts...)
	gs := gsimpl.New(f.Ctx, nn, store.LinkSystem(), opts...)
	nd := &Node{ID: id, GS: gs, NN: nn, Store: store, Rec: rec}
	f.Nodes[id] = nd
	gs.RegisterCompletedResponseListener(func(p peer.ID, r graphsync.RequestData, st graphsync.ResponseStatusCode) {
		rec.Completed[r.ID()] = append(rec.Completed[r.ID()], st)
		rec.Events = append(rec.Events, fmt.Sprintf("completed %s %s", ShortID(r.ID()), st))
	})
	gs.RegisterRequestorCancelledListener(func(p peer.ID, r graphsync.RequestData) {
		rec.Cancelled[r.ID()]++
		rec.Events = append(rec.Events, "cancelled "+ShortID(r.ID()))
	})
	gs.RegisterNetworkErrorListener(func(p peer.ID, r graphsync.RequestData, err error) {
		rec.NetErr[r.ID()]++
		rec.Events = append(rec.Events, "neterr "+ShortID(r.ID()))
	})
	gs.RegisterBlockSentListener(func(p peer.ID, r graphsync.RequestData, b graphsync.BlockData) {
		rec.BlocksSent[r.ID()]++
	})
	gs.RegisterReceiverNetworkErrorListener(func(p peer.ID, err error) { rec.RecvErrs++ })
	return nd
}

// AcceptAll registers a request hook validating every request (the default
// validator already accepts bounded selectors; this one is for hook-outcome
// scenarios).
func (n *Node) AcceptAll() {
	n.GS.RegisterIncomingRequestHook(func(p peer.ID, r graphsync.RequestData, ha graphsync.IncomingRequestHookActions) {
		n.Rec.ReqHooks++
		ha.ValidateRequest()
	})
}

// RecordIncoming registers pure requestor-side recorders.
func (n *Node) RecordIncoming() {
	n.GS.RegisterIncomingBlockHook(func(p peer.ID, r graphsync.ResponseData, b graphsync.BlockData, ha graphsync.IncomingBlockHookActions) {
		n.Rec.InBlocks[r.RequestID()]++
		n.Rec.InBlockLinks[r.RequestID()] = append(n.Rec.InBlockLinks[r.RequestID()], b.Link())
	})
	n.GS.RegisterIncomingResponseHook(func(p peer.ID, r graphsync.ResponseData, ha graphsync.IncomingResponseHookActions) {
		n.Rec.RespHooks = append(n.Rec.RespHooks, fmt.Sprintf("%s/%s/%d", p, ShortID(r.RequestID()), r.Status()))
	})
}

// ---- request IDs

func MkID(b byte) graphsync.RequestID {
	x := []byte("0123456789abcdef")
	x[0] = b
	id, err := graphsync.ParseRequestID(x)
	if err != nil {
		panic(err)
	}
	return id
}

func ShortID(id graphsync.RequestID) string {
	b := id.Bytes()
	if len(b) == 0 {
		return "r?"
	}
	return fmt.Sprintf("r%d", b[0])
}

// ---- running a request and collecting its results

type ReqResult struct {
	ID         graphsync.RequestID
	Visits     []Visit
	Errs       []error
	Seq        []string // merged order of deliveries: "n:<path>" / "e:<err>"
	RespClosed bool
	ErrClosed  bool
	Done       chan struct{}
	AfterClose int // deliveries observed after a channel reported closed (must be 0)
	cancel     context.CancelFunc
}

func (r *ReqResult) Closed() bool { return r.RespClosed && r.ErrClosed }

// Cancel cancels the request's context (caller cancellation).
func (r *ReqResult) Cancel() { r.cancel() }

// Request issues a request from n and starts a reader thread that keeps
// reading both channels until they are closed.
func (n *Node) Request(f *Fixture, to peer.ID, root ipld.Link, sel datamodel.Node, id graphsync.RequestID, exts ...graphsync.ExtensionData) *ReqResult {
	ctx, cancel := context.WithCancel(f.Ctx)
	return n.RequestCtx(ctx, cancel, to, root, sel, id, exts...)
}

// RequestCtx is Request with a caller-made context (so that it can be cancelled while the call is in progress).
func (n *Node) RequestCtx(ctx context.Context, cancel context.CancelFunc, to peer.ID, root ipld.Link, sel datamodel.Node, id graphsync.RequestID, exts ...graphsync.ExtensionData) *ReqResult {
	ctx = context.WithValue(ctx, graphsync.RequestIDContextKey{}, id)
	res := &ReqResult{ID: id, Done: make(chan struct{}), cancel: cancel}
	resp, errs := n.GS.Request(ctx, to, root, sel, exts...)
	go func() {
		for resp != nil || errs != nil {
			select {
			case p, ok := <-resp:
				if !ok {
					res.RespClosed = true
					resp = nil
				} else {
					res.Visits = append(res.Visits, Visit{Path: p.Path.String(), Node: RenderNode(p.Node)})
					res.Seq = append(res.Seq, "n:"+p.Path.String())
				}
			case e, ok := <-errs:
				if !ok {
					res.ErrClosed = true
					errs = nil
				} else {
					res.Errs = append(res.Errs, e)
					res.Seq = append(res.Seq, "e:"+e.Error())
				}
			}
		}
		close(res.Done)
	}()
	return res
}

// ErrStrings renders the errors of a result, classifying the well-known ones.
func (r *ReqResult) ErrStrings(d *DAG) []string {
	var out []string
	for _, e := range r.Errs {
		out = append(out, ClassifyErr(e, d))
	}
	return out
}

func ClassifyErr(e error, d *DAG) string {
	switch x := e.(type) {
	case graphsync.RemoteMissingBlockErr:
		return "missing:" + d.Name(x.Link) + "@" + x.Path.String()
	case graphsync.RemoteIncorrectResponseError:
		return "incorrect:" + d.Name(x.LocalLink) + "/" + d.Name(x.RemoteLink) + "@" + x.Path.String()
	case graphsync.RequestClientCancelledErr:
		return "client-cancelled"
	case graphsync.RequestFailedBusyErr:
		return "failed-busy"
	case graphsync.RequestFailedContentNotFoundErr:
		return "failed-content-not-found"
	case graphsync.RequestFailedLegalErr:
		return "failed-legal"
	case graphsync.RequestFailedUnknownErr:
		return "failed-unknown"
	case graphsync.RequestCancelledErr:
		return "request-cancelled"
	}
	s := e.Error()
	if strings.Contains(s, "budget") {
		return "budget:" + s
	}
	return "other:" + s
}

func VisitsString(v []Visit) string {
	parts := make([]string, len(v))
	for i, x := range v {
		parts[i] = x.Path + "=" + x.Node
	}
	return strings.Join(parts, " | ")
}

func SortedStrings(s []string) []string {
	o := append([]string{}, s...)
	sort.Strings(o)
	return o
}
