// Package harness: shared fixtures — DAG/selector/split generators, the
// reference traversal, map-backed stores, the fake network, recorders and the
// two-node fixture (DESIGN 3.5, 5.1).
package harness

import (
	"bytes"
	"fmt"
	"github.com/ipld/go-ipld-prime/codec"
	"github.com/ipld/go-ipld-prime/linking"
	"io"
	"sort"
	"strings"

	"github.com/ipfs/go-cid"
	"github.com/ipld/go-ipld-prime"
	_ "github.com/ipld/go-ipld-prime/codec/dagcbor"
	_ "github.com/ipld/go-ipld-prime/codec/raw"
	"github.com/ipld/go-ipld-prime/datamodel"
	"github.com/ipld/go-ipld-prime/fluent"
	cidlink "github.com/ipld/go-ipld-prime/linking/cid"
	"github.com/ipld/go-ipld-prime/node/basicnode"
	"github.com/ipld/go-ipld-prime/traversal/selector"
	"github.com/ipld/go-ipld-prime/traversal/selector/builder"
)

// ---- stores

// Store is a map-backed block store with a commit log.
type Store struct {
	M      map[string][]byte
	Log    []string // link keys in commit order
	Reads  []string // link keys in read order (hits and misses)
	OnRead func(l ipld.Link)
	// fault arming (C22): panic at the k-th (1-based) call of the named callback
	PanicAt map[string]int
	// PanicValue, when set, makes the value of an injected panic (default: the message string)
	PanicValue func(msg string) any
	calls      map[string]int
	// Instrument adds counting/panicking wrappers for the decoder, the node
	// reifier and a named ADL reifier ("adl1") to LinkSystem() (C22).
	Instrument bool
}

// Calls reports how often the named callback ran.
func (s *Store) Calls(name string) int { return s.calls[name] }

// Arm is the exported fault point for callbacks living outside the store (prototype chooser).
func (s *Store) Arm(name string) { s.arm(name) }

func NewStore() *Store {
	return &Store{M: map[string][]byte{}, PanicAt: map[string]int{}, calls: map[string]int{}}
}

func (s *Store) Clone() *Store {
	n := NewStore()
	for k, v := range s.M {
		n.M[k] = v
	}
	return n
}

func (s *Store) Has(l ipld.Link) bool { _, ok := s.M[l.Binary()]; return ok }

func (s *Store) Put(l ipld.Link, data []byte) { s.M[l.Binary()] = data }

func (s *Store) Keys() []string {
	ks := make([]string, 0, len(s.M))
	for k := range s.M {
		ks = append(ks, k)
	}
	sort.Strings(ks)
	return ks
}

func (s *Store) arm(name string) {
	s.calls[name]++
	if k := s.PanicAt[name]; k > 0 && s.calls[name] == k {
		msg := fmt.Sprintf("injected panic in %s call %d", name, k)
		if s.PanicValue != nil {
			panic(s.PanicValue(msg))
		}
		panic(msg)
	}
}

// LinkSystem returns a link system over the store (TrustedStorage as
// storeutil.LinkSystemForBlockstore does).
func (s *Store) LinkSystem() ipld.LinkSystem {
	ls := cidlink.DefaultLinkSystem()
	ls.TrustedStorage = true
	ls.StorageReadOpener = func(_ ipld.LinkContext, l ipld.Link) (io.Reader, error) {
		s.arm("read")
		s.Reads = append(s.Reads, l.Binary())
		if s.OnRead != nil {
			s.OnRead(l)
		}
		b, ok := s.M[l.Binary()]
		if !ok {
			return nil, fmt.Errorf("block not found")
		}
		return bytes.NewReader(b), nil
	}
	ls.StorageWriteOpener = func(_ ipld.LinkContext) (io.Writer, ipld.BlockWriteCommitter, error) {
		s.arm("write")
		var buf bytes.Buffer
		return &buf, func(l ipld.Link) error {
			s.arm("commit")
			s.M[l.Binary()] = append([]byte{}, buf.Bytes()...)
			s.Log = append(s.Log, l.Binary())
			return nil
		}, nil
	}
	if s.Instrument {
		inner := ls.DecoderChooser
		ls.DecoderChooser = func(l ipld.Link) (codec.Decoder, error) {
			dec, err := inner(l)
			if err != nil {
				return nil, err
			}
			return func(na datamodel.NodeAssembler, r io.Reader) error {
				s.arm("decode")
				return dec(na, r)
			}, nil
		}
		ls.NodeReifier = func(lc linking.LinkContext, n datamodel.Node, _ *linking.LinkSystem) (datamodel.Node, error) {
			s.arm("reify")
			return n, nil
		}
		ls.KnownReifiers = map[string]linking.NodeReifier{"adl1": func(lc linking.LinkContext, n datamodel.Node, _ *linking.LinkSystem) (datamodel.Node, error) {
			s.arm("adl")
			return n, nil
		}}
	}
	return ls
}

// ---- DAG shapes

type Form int

const (
	Direct     Form = iota // field: link
	Inline                 // field: {c: link}
	Nested                 // field: {n: {c: link}}
	List                   // field: [link]
	ListInline             // field: [{c: link}]   (path f/0/c: shares the segment "0" with a List sibling)
	Inline2                // field: {c: {c: link}} (path f/c/c: shares the segment "c" with an Inline sibling)
)

var formNames = []string{"direct", "inline", "nested", "list", "listinline", "inline2"}

type Edge struct {
	To   int
	Form Form
}

type BlockSpec struct {
	Edges []Edge
	Raw   bool // raw leaf (codec 0x55)
	Pad   int  `json:",omitempty"` // extra field "p": a list of Pad integers (a wide block: many nodes, no links)
}

type Shape struct {
	Name    string
	Blocks  []BlockSpec
	Reverse bool // field names chosen so that children are visited in reverse index order
}

func (s Shape) String() string {
	var sb strings.Builder
	sb.WriteString(s.Name + ":")
	for i, b := range s.Blocks {
		fmt.Fprintf(&sb, " %d", i)
		if b.Raw {
			sb.WriteString("(raw)")
		}
		if b.Pad > 0 {
			fmt.Fprintf(&sb, "(pad%d)", b.Pad)
		}
		if len(b.Edges) > 0 {
			sb.WriteString("->")
			for k, e := range b.Edges {
				if k > 0 {
					sb.WriteString(",")
				}
				fmt.Fprintf(&sb, "%d/%s", e.To, formNames[e.Form])
			}
		}
	}
	if s.Reverse {
		sb.WriteString(" rev")
	}
	return sb.String()
}

// DAG is a built shape.
type DAG struct {
	Shape Shape
	Links []ipld.Link
	Data  [][]byte
	Root  ipld.Link
	Index map[string]int // link key -> block index
}

var cborProto = cidlink.LinkPrototype{Prefix: cid.Prefix{Version: 1, Codec: 0x71, MhType: 0x12, MhLength: 32}}
var rawProto = cidlink.LinkPrototype{Prefix: cid.Prefix{Version: 1, Codec: 0x55, MhType: 0x12, MhLength: 32}}

// Build encodes the shape bottom-up. salt makes otherwise equal DAGs distinct
// (decoys).
func Build(s Shape, salt string) *DAG {
	n := len(s.Blocks)
	d := &DAG{Shape: s, Links: make([]ipld.Link, n), Data: make([][]byte, n), Index: map[string]int{}}
	tmp := NewStore()
	ls := tmp.LinkSystem()
	for i := n - 1; i >= 0; i-- {
		b := s.Blocks[i]
		var l ipld.Link
		var err error
		if b.Raw {
			nd := basicnode.NewBytes([]byte(fmt.Sprintf("raw-leaf-%d-%s", i, salt)))
			l, err = ls.Store(ipld.LinkContext{}, rawProto, nd)
		} else {
			nd := fluent.MustBuildMap(basicnode.Prototype.Map, int64(len(b.Edges)+2), func(ma fluent.MapAssembler) {
				ma.AssembleEntry("v").AssignString(fmt.Sprintf("%d%s", i, salt))
				if b.Pad > 0 {
					ma.AssembleEntry("p").CreateList(int64(b.Pad), func(la fluent.ListAssembler) {
						for k := 0; k < b.Pad; k++ {
							la.AssembleValue().AssignInt(int64(k))
						}
					})
				}
				for k, e := range b.Edges {
					name := fmt.Sprintf("e%d", k)
					if s.Reverse {
						name = fmt.Sprintf("e%d", 9-k)
					}
					child := d.Links[e.To]
					switch e.Form {
					case Direct:
						ma.AssembleEntry(name).AssignLink(child)
					case Inline:
						ma.AssembleEntry(name).CreateMap(1, func(m2 fluent.MapAssembler) { m2.AssembleEntry("c").AssignLink(child) })
					case Nested:
						ma.AssembleEntry(name).CreateMap(1, func(m2 fluent.MapAssembler) {
							m2.AssembleEntry("n").CreateMap(1, func(m3 fluent.MapAssembler) { m3.AssembleEntry("c").AssignLink(child) })
						})
					case List:
						ma.AssembleEntry(name).CreateList(1, func(la fluent.ListAssembler) { la.AssembleValue().AssignLink(child) })
					case ListInline:
						ma.AssembleEntry(name).CreateList(1, func(la fluent.ListAssembler) {
							la.AssembleValue().CreateMap(1, func(m2 fluent.MapAssembler) { m2.AssembleEntry("c").AssignLink(child) })
						})
					case Inline2:
						ma.AssembleEntry(name).CreateMap(1, func(m2 fluent.MapAssembler) {
							m2.AssembleEntry("c").CreateMap(1, func(m3 fluent.MapAssembler) { m3.AssembleEntry("c").AssignLink(child) })
						})
					}
				}
			})
			l, err = ls.Store(ipld.LinkContext{}, cborProto, nd)
		}
		if err != nil {
			panic(err)
		}
		d.Links[i] = l
		d.Data[i] = tmp.M[l.Binary()]
		d.Index[l.Binary()] = i
	}
	d.Root = d.Links[0]
	return d
}

// Name of a link for reports: block index or "?" for foreign links.
func (d *DAG) Name(l ipld.Link) string {
	if l == nil {
		return "nil"
	}
	if i, ok := d.Index[l.Binary()]; ok {
		return fmt.Sprintf("b%d", i)
	}
	return "?" + l.String()[len(l.String())-6:]
}

// EdgeSets enumerates all edge sets over n blocks (edges i->j, i<j) in which
// every block is reachable from block 0.
func EdgeSets(n int) [][][2]int {
	var pairs [][2]int
	for i := 0; i < n; i++ {
		for j := i + 1; j < n; j++ {
			pairs = append(pairs, [2]int{i, j})
		}
	}
	var out [][][2]int
	for mask := 0; mask < 1<<len(pairs); mask++ {
		var es [][2]int
		for k, p := range pairs {
			if mask&(1<<k) != 0 {
				es = append(es, p)
			}
		}
		reach := make([]bool, n)
		reach[0] = true
		for i := 0; i < n; i++ { // edges go forward, one pass in index order suffices
			if !reach[i] {
				continue
			}
			for _, e := range es {
				if e[0] == i {
					reach[e[1]] = true
				}
			}
		}
		all := true
		for _, r := range reach {
			all = all && r
		}
		if all {
			out = append(out, es)
		}
	}
	return out
}

// Shapes enumerates the shape catalogue for up to maxN blocks.
// variants: number of link-form rotations per edge set (1..4); withRev adds
// the reversed-field-order twin, withRaw adds raw-leaf twins, withDup adds
// shapes holding the same link twice in one block.
func Shapes(maxN, variants int, withRev, withRaw, withDup bool) []Shape {
	var out []Shape
	for n := 1; n <= maxN; n++ {
		for si, es := range EdgeSets(n) {
			for v := 0; v < variants; v++ {
				if len(es) == 0 && v > 0 {
					continue
				}
				mk := func(rev, raw bool, dup int) Shape {
					s := Shape{Blocks: make([]BlockSpec, n), Reverse: rev}
					for k, e := range es {
						s.Blocks[e[0]].Edges = append(s.Blocks[e[0]].Edges, Edge{To: e[1], Form: Form((k + v) % 4)})
					}
					if dup >= 0 {
						e := es[dup]
						s.Blocks[e[0]].Edges = append(s.Blocks[e[0]].Edges, Edge{To: e[1], Form: Form((dup + v + 1) % 4)})
					}
					if raw {
						for i := range s.Blocks {
							if len(s.Blocks[i].Edges) == 0 && i > 0 {
								s.Blocks[i].Raw = true
							}
						}
					}
					s.Name = fmt.Sprintf("n%d.s%d.v%d", n, si, v)
					if rev {
						s.Name += ".rev"
					}
					if raw {
						s.Name += ".raw"
					}
					if dup >= 0 {
						s.Name += fmt.Sprintf(".dup%d", dup)
					}
					return s
				}
				out = append(out, mk(false, false, -1))
				if withRev && len(es) > 1 {
					out = append(out, mk(true, false, -1))
				}
				if withRaw && n > 1 {
					out = append(out, mk(false, true, -1))
				}
				if withDup && n <= 3 {
					for dup := range es {
						out = append(out, mk(false, false, dup))
					}
				}
				// sibling edges of one block all in the same link form (equal inner path segments: e0/c vs e1/c)
				if withDup && v == 0 && len(es) >= 2 && n <= 4 {
					for _, f := range []Form{Inline, Nested, List} {
						s := Shape{Blocks: make([]BlockSpec, n)}
						for _, e := range es {
							s.Blocks[e[0]].Edges = append(s.Blocks[e[0]].Edges, Edge{To: e[1], Form: f})
						}
						s.Name = fmt.Sprintf("n%d.s%d.u%s", n, si, formNames[f])
						out = append(out, s)
					}
					// a shallow link form next to its deeper twin (the deeper path repeats the shallow one's last segment)
					for _, tw := range [][2]Form{{List, ListInline}, {Inline, Inline2}, {ListInline, List}, {Inline2, Inline}} {
						s := Shape{Blocks: make([]BlockSpec, n)}
						for k, e := range es {
							f := tw[1]
							if k == 0 {
								f = tw[0]
							}
							s.Blocks[e[0]].Edges = append(s.Blocks[e[0]].Edges, Edge{To: e[1], Form: f})
						}
						s.Name = fmt.Sprintf("n%d.s%d.t%s-%s", n, si, formNames[tw[0]], formNames[tw[1]])
						out = append(out, s)
					}
				}
			}
		}
	}
	return out
}

// ---- selectors

type SelSpec struct {
	Name string
	Node datamodel.Node
}

var ssb = builder.NewSelectorSpecBuilder(basicnode.Prototype.Any)

func recAllS(depth int64) builder.SelectorSpec {
	return ssb.ExploreRecursive(selector.RecursionLimitDepth(depth), ssb.ExploreAll(ssb.ExploreRecursiveEdge()))
}

func recAll(depth int64) datamodel.Node { return recAllS(depth).Node() }

// RecAll is the explore-all recursive selector with the given depth limit.
func RecAll(depth int64) datamodel.Node { return recAll(depth) }

// Selectors is the selector catalogue (DESIGN 5.1).
func Selectors(full bool) []SelSpec {
	out := []SelSpec{
		{"all-d10", recAll(10)},
		{"all-d2", recAll(2)},
		{"all-d1", recAll(1)},
		{"matcher", ssb.Matcher().Node()},
		{"field-e0-then-all", ssb.ExploreFields(func(efsb builder.ExploreFieldsSpecBuilder) {
			efsb.Insert("e0", recAllS(10))
		}).Node()},
	}
	if full {
		out = append(out,
			SelSpec{"union-e0-e1", ssb.ExploreUnion(
				ssb.ExploreFields(func(efsb builder.ExploreFieldsSpecBuilder) { efsb.Insert("e0", recAllS(10)) }),
				ssb.ExploreFields(func(efsb builder.ExploreFieldsSpecBuilder) { efsb.Insert("e1", recAllS(10)) }),
			).Node()},
			SelSpec{"fields-e1-e0", ssb.ExploreFields(func(efsb builder.ExploreFieldsSpecBuilder) {
				efsb.Insert("e1", recAllS(10))
				efsb.Insert("e0", ssb.Matcher())
			}).Node()},
			SelSpec{"all-d3", recAll(3)},
		)
	}
	return out
}

// ---- splits

// Split assigns each block to the requestor's store (bit 0) and/or the
// responder's store (bit 1); value 0..3 per block.
type Split []int

func Splits(n int) []Split {
	var out []Split
	tot := 1
	for i := 0; i < n; i++ {
		tot *= 4
	}
	for m := 0; m < tot; m++ {
		s := make(Split, n)
		x := m
		for i := 0; i < n; i++ {
			s[i] = x % 4
			x /= 4
		}
		out = append(out, s)
	}
	return out
}

func (s Split) String() string {
	names := []string{"-", "Q", "R", "QR"}
	parts := make([]string, len(s))
	for i, v := range s {
		parts[i] = names[v]
	}
	return strings.Join(parts, ",")
}

// Stores builds the two stores of a split.
func (d *DAG) Stores(s Split) (req, resp *Store) {
	req, resp = NewStore(), NewStore()
	for i, v := range s {
		if v&1 != 0 {
			req.Put(d.Links[i], d.Data[i])
		}
		if v&2 != 0 {
			resp.Put(d.Links[i], d.Data[i])
		}
	}
	return
}
