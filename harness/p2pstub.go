package harness

import (
	"bytes"
	"context"
	"io"
	"time"

	gsmsg "github.com/ipfs/go-graphsync/message"
	gsnet "github.com/ipfs/go-graphsync/network"
	"github.com/libp2p/go-libp2p/core/connmgr"
	"github.com/libp2p/go-libp2p/core/host"
	p2pnet "github.com/libp2p/go-libp2p/core/network"
	"github.com/libp2p/go-libp2p/core/peer"
	"github.com/libp2p/go-libp2p/core/protocol"
)

// Stub libp2p host (DESIGN 6 C12): the real network.NewFromLibp2pHost runs on
// top of it, so the real handleNewStream is what reads hostile bytes.

type StubHost struct {
	host.Host // nil: any method not overridden panics (none is reached)
	Self      peer.ID
	Handler   p2pnet.StreamHandler
	Out       []*StubStream // outgoing streams opened by the node
}

func (h *StubHost) ID() peer.ID                                         { return h.Self }
func (h *StubHost) Network() p2pnet.Network                             { return &stubNetwork{} }
func (h *StubHost) ConnManager() connmgr.ConnManager                    { return connmgr.NullConnMgr{} }
func (h *StubHost) Connect(ctx context.Context, pi peer.AddrInfo) error { return nil }
func (h *StubHost) SetStreamHandler(pid protocol.ID, handler p2pnet.StreamHandler) {
	h.Handler = handler
}
func (h *StubHost) NewStream(ctx context.Context, p peer.ID, pids ...protocol.ID) (p2pnet.Stream, error) {
	s := &StubStream{Peer: p, Proto: pids[0]}
	h.Out = append(h.Out, s)
	return s, nil
}

type stubNetwork struct{ p2pnet.Network }

func (n *stubNetwork) Notify(p2pnet.Notifiee) {}

type stubConn struct {
	p2pnet.Conn
	p peer.ID
}

func (c *stubConn) RemotePeer() peer.ID { return c.p }

// StubStream: an incoming stream holding fixed bytes, or an outgoing stream
// collecting what the node writes.
type StubStream struct {
	p2pnet.Stream
	Peer      peer.ID
	Proto     protocol.ID
	In        *bytes.Reader
	Written   bytes.Buffer
	WasReset  bool
	WasClosed bool
}

func NewInStream(from peer.ID, data []byte) *StubStream {
	return &StubStream{Peer: from, Proto: gsnet.ProtocolGraphsync_2_0_0, In: bytes.NewReader(data)}
}

func (s *StubStream) Read(p []byte) (int, error) {
	if s.In == nil {
		return 0, io.EOF
	}
	return s.In.Read(p)
}
func (s *StubStream) Unread() int {
	if s.In == nil {
		return 0
	}
	return s.In.Len()
}
func (s *StubStream) Write(p []byte) (int, error)      { return s.Written.Write(p) }
func (s *StubStream) Close() error                     { s.WasClosed = true; return nil }
func (s *StubStream) CloseWrite() error                { return nil }
func (s *StubStream) CloseRead() error                 { return nil }
func (s *StubStream) Reset() error                     { s.WasReset = true; return nil }
func (s *StubStream) SetDeadline(time.Time) error      { return nil }
func (s *StubStream) SetReadDeadline(time.Time) error  { return nil }
func (s *StubStream) SetWriteDeadline(time.Time) error { return nil }
func (s *StubStream) Protocol() protocol.ID            { return s.Proto }
func (s *StubStream) Conn() p2pnet.Conn                { return &stubConn{p: s.Peer} }
func (s *StubStream) ID() string                       { return "stub" }

// Messages decodes everything the node wrote to this outgoing stream.
func (s *StubStream) Messages() []gsmsg.GraphSyncMessage {
	var out []gsmsg.GraphSyncMessage
	r := bytes.NewReader(s.Written.Bytes())
	for r.Len() > 0 {
		m, err := MH.FromNet(s.Peer, r)
		if err != nil {
			break
		}
		out = append(out, m)
	}
	return out
}

// RecordingNet wraps the real libp2p-backed GraphSyncNetwork so that the
// receiver the instance installs is observed.
type RecordingNet struct {
	gsnet.GraphSyncNetwork
	Delivered     []gsmsg.GraphSyncMessage
	DeliveredFrom []peer.ID
	Errors        []error
}

type recordingReceiver struct {
	inner gsnet.Receiver
	rn    *RecordingNet
}

func (r *recordingReceiver) ReceiveMessage(ctx context.Context, sender peer.ID, incoming gsmsg.GraphSyncMessage) {
	r.rn.Delivered = append(r.rn.Delivered, incoming)
	r.rn.DeliveredFrom = append(r.rn.DeliveredFrom, sender)
	r.inner.ReceiveMessage(ctx, sender, incoming)
}
func (r *recordingReceiver) ReceiveError(p peer.ID, err error) {
	r.rn.Errors = append(r.rn.Errors, err)
	r.inner.ReceiveError(p, err)
}
func (r *recordingReceiver) Connected(p peer.ID)    { r.inner.Connected(p) }
func (r *recordingReceiver) Disconnected(p peer.ID) { r.inner.Disconnected(p) }

func (rn *RecordingNet) SetDelegate(r gsnet.Receiver) {
	rn.GraphSyncNetwork.SetDelegate(&recordingReceiver{inner: r, rn: rn})
}
