package harness

import (
	"context"

	"github.com/ipfs/go-graphsync"
	gsmsg "github.com/ipfs/go-graphsync/message"
	"github.com/libp2p/go-libp2p/core/peer"
)

// Scripted peers (DESIGN 3.5): a peer played by the harness. It records every
// message delivered to it (NetNode.Inbox) and sends messages through the fake
// network like a real node (same FIFO link, same wire encoding).

func (f *Fixture) AddScript(id peer.ID) *NetNode {
	nn := f.Net.Node(id)
	nn.Script = func(from peer.ID, m gsmsg.GraphSyncMessage) {}
	return nn
}

// Say sends message m from the scripted peer to `to`.
func (n *NetNode) Say(to peer.ID, m gsmsg.GraphSyncMessage) {
	if err := n.SendMessage(context.Background(), to, m); err != nil {
		panic("harness: scripted send failed: " + err.Error())
	}
}

// ReqMsg builds a message holding the given requests.
func ReqMsg(reqs ...gsmsg.GraphSyncRequest) gsmsg.GraphSyncMessage {
	b := gsmsg.NewBuilder()
	for _, r := range reqs {
		b.AddRequest(r)
	}
	m, err := b.Build()
	if err != nil {
		panic(err)
	}
	return m
}

// ResponsesFor flattens what peer `to` received from `from` for request id:
// per message: status (0 if none), metadata, block CIDs.
type RespPart struct {
	MsgSeq int
	Status graphsync.ResponseStatusCode
	HasRsp bool
	MD     []gsmsg.GraphSyncLinkMetadatum
	Exts   []graphsync.ExtensionName
}

func (n *NetNode) ResponsesFor(from peer.ID, id graphsync.RequestID) []RespPart {
	var out []RespPart
	for _, w := range n.Inbox {
		if w.From != from {
			continue
		}
		for _, r := range w.Msg.Responses() {
			if r.RequestID() != id {
				continue
			}
			p := RespPart{MsgSeq: w.Seq, Status: r.Status(), HasRsp: true, Exts: r.ExtensionNames()}
			if md, ok := r.Metadata().(gsmsg.GraphSyncLinkMetadata); ok {
				p.MD = md.RawMetadata()
			}
			out = append(out, p)
		}
	}
	return out
}
