package harness

import (
	"fmt"
	"sort"

	"github.com/ipfs/go-graphsync/zzverif/vsched"
	"github.com/libp2p/go-libp2p/core/peer"
)

// Event-level exploration (DESIGN 4): with the network in gated mode the
// system runs to quiescence after every environment event; which enabled event
// comes next is an environment choice (vsched.Choose), so the explorer
// enumerates event orders within its deviation bound. Events are listed in
// "natural" order: choice 0 always takes the first enabled one.

type Event struct {
	Name    string
	Enabled func() bool
	Do      func()
}

// Deliveries returns one delivery event per directed link among the given
// peers, in a fixed order.
func (f *Fixture) Deliveries(peers ...peer.ID) []*Event {
	var out []*Event
	for _, to := range peers {
		for _, from := range peers {
			if from == to {
				continue
			}
			from, to := from, to
			out = append(out, &Event{
				Name:    fmt.Sprintf("deliver %s->%s", from, to),
				Enabled: func() bool { return f.Net.Node(to).Pending(from) > 0 },
				Do:      func() { f.Net.Node(to).DeliverNext(from) },
			})
		}
	}
	sort.SliceStable(out, func(i, j int) bool { return out[i].Name < out[j].Name })
	return out
}

// RunEvents repeatedly picks an enabled event (environment choice), performs
// it and lets the system run to quiescence, until none is enabled or maxSteps
// is reached. It returns the names of the events performed.
func RunEvents(evs []*Event, maxSteps int) []string {
	var trace []string
	for step := 0; step < maxSteps; step++ {
		var en []*Event
		for _, e := range evs {
			if e.Enabled() {
				en = append(en, e)
			}
		}
		if len(en) == 0 {
			break
		}
		e := en[vsched.Choose(len(en))]
		trace = append(trace, e.Name)
		e.Do()
		vsched.Quiesce()
	}
	return trace
}
