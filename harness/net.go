package harness

import (
	"bytes"
	"context"
	"errors"
	"fmt"

	gsmsg "github.com/ipfs/go-graphsync/message"
	gsmsgv2 "github.com/ipfs/go-graphsync/message/v2"
	gsnet "github.com/ipfs/go-graphsync/network"
	"github.com/ipfs/go-graphsync/zzverif/vsched"
	"github.com/libp2p/go-libp2p/core/peer"
)

// Fake network (DESIGN 3.5): SendMsg encodes with the real message/v2 handler,
// delivery decodes with FromNet and calls the peer's Receiver, so the wire
// format is inside every whole-system check. FIFO per directed link.

var MH = gsmsgv2.NewMessageHandler()

type Wire struct {
	Seq      int
	From, To peer.ID
	Bytes    []byte
	Msg      gsmsg.GraphSyncMessage // decoded copy for inspection
	Dropped  bool                   // send failed (fault) — never delivered
}

type FaultAction int

const (
	SendOK FaultAction = iota
	SendFail
	SendStall    // never returns
	SendHold     // blocks until Net.ReleaseHeld is called, then proceeds normally
	SendHoldFail // blocks until Net.ReleaseHeld is called, then fails
)

type Net struct {
	Nodes map[peer.ID]*NetNode
	Wire  []*Wire
	Gated bool
	// SendFault decides the fate of the k-th (0-based) SendMsg on link from->to.
	SendFault func(from, to peer.ID, k int, m gsmsg.GraphSyncMessage) FaultAction
	// ConnectFault decides whether the k-th ConnectTo from->to fails.
	ConnectFault func(from, to peer.ID, k int) bool
	// OnWire is called for every message accepted by the network.
	OnWire func(w *Wire)
	sends  map[[2]peer.ID]int
	conns  map[[2]peer.ID]int
	never  chan struct{}
	hold   chan struct{}
	Held   int // sends currently blocked by SendHold
}

// ReleaseHeld lets every send blocked by SendHold proceed (and later ones pass).
func (n *Net) ReleaseHeld() {
	select {
	case <-n.hold:
	default:
		vsched.Close(n.hold)
	}
}

func NewNet() *Net {
	return &Net{Nodes: map[peer.ID]*NetNode{}, sends: map[[2]peer.ID]int{}, conns: map[[2]peer.ID]int{}, never: make(chan struct{}), hold: make(chan struct{})}
}

type ProtectEvent struct {
	Peer    peer.ID
	Tag     string
	Protect bool
}

type NetNode struct {
	Net      *Net
	ID       peer.ID
	Recv     gsnet.Receiver
	links    map[peer.ID]*link
	Protects []ProtectEvent
	// Script, when set, receives messages instead of a Receiver (scripted peer).
	Script func(from peer.ID, m gsmsg.GraphSyncMessage)
	// Received messages (scripted or not), in delivery order
	Inbox []*Wire
}

type link struct {
	ch      chan *Wire // auto mode
	pending []*Wire    // gated mode
}

func (n *Net) Node(id peer.ID) *NetNode {
	nd, ok := n.Nodes[id]
	if !ok {
		nd = &NetNode{Net: n, ID: id, links: map[peer.ID]*link{}}
		n.Nodes[id] = nd
	}
	return nd
}

func (n *NetNode) SendMessage(ctx context.Context, p peer.ID, m gsmsg.GraphSyncMessage) error {
	s, _ := n.NewMessageSender(ctx, p, gsnet.MessageSenderOpts{})
	return s.SendMsg(ctx, m)
}
func (n *NetNode) SetDelegate(r gsnet.Receiver) { n.Recv = r }
func (n *NetNode) ConnectTo(ctx context.Context, p peer.ID) error {
	k := [2]peer.ID{n.ID, p}
	i := n.Net.conns[k]
	n.Net.conns[k]++
	if n.Net.ConnectFault != nil && n.Net.ConnectFault(n.ID, p, i) {
		return errors.New("injected connect failure")
	}
	return nil
}
func (n *NetNode) ConnectionManager() gsnet.ConnManager { return (*connMgr)(n) }
func (n *NetNode) NewMessageSender(ctx context.Context, p peer.ID, o gsnet.MessageSenderOpts) (gsnet.MessageSender, error) {
	return &sender{n, p}, nil
}

type connMgr NetNode

func (c *connMgr) Protect(p peer.ID, tag string) {
	c.Protects = append(c.Protects, ProtectEvent{p, tag, true})
}
func (c *connMgr) Unprotect(p peer.ID, tag string) bool {
	c.Protects = append(c.Protects, ProtectEvent{p, tag, false})
	return false
}

// ProtectBalance returns tags still protected per peer.
func (n *NetNode) ProtectBalance() map[string]int {
	out := map[string]int{}
	for _, e := range n.Protects {
		k := string(e.Peer) + "/" + e.Tag
		if e.Protect {
			out[k] = 1 // Protect is idempotent per (peer, tag)
		} else {
			delete(out, k)
		}
	}
	return out
}

type sender struct {
	n  *NetNode
	to peer.ID
}

func (s *sender) Close() error { return nil }
func (s *sender) Reset() error { return nil }

func (s *sender) SendMsg(ctx context.Context, m gsmsg.GraphSyncMessage) error {
	net := s.n.Net
	key := [2]peer.ID{s.n.ID, s.to}
	k := net.sends[key]
	net.sends[key]++
	act := SendOK
	if net.SendFault != nil {
		act = net.SendFault(s.n.ID, s.to, k, m)
	}
	var buf bytes.Buffer
	if err := MH.ToNet(s.to, m, &buf); err != nil {
		return err
	}
	w := &Wire{Seq: len(net.Wire), From: s.n.ID, To: s.to, Bytes: buf.Bytes()}
	dm, err := MH.FromNet(s.n.ID, bytes.NewReader(w.Bytes))
	if err != nil {
		panic(fmt.Sprintf("harness: own encoding does not decode: %v", err))
	}
	w.Msg = dm
	switch act {
	case SendFail:
		w.Dropped = true
		net.Wire = append(net.Wire, w)
		return errors.New("injected send failure")
	case SendHold:
		net.Held++
		vsched.Recv(net.hold)
		net.Held--
	case SendHoldFail:
		net.Held++
		vsched.Recv(net.hold)
		net.Held--
		w.Dropped = true
		net.Wire = append(net.Wire, w)
		return errors.New("injected send failure (after a stall)")
	case SendStall:
		w.Dropped = true
		net.Wire = append(net.Wire, w)
		vsched.Recv(net.never)
		return errors.New("stalled")
	}
	net.Wire = append(net.Wire, w)
	if net.OnWire != nil {
		net.OnWire(w)
	}
	dst := net.Node(s.to)
	dst.enqueue(s.n.ID, w)
	return nil
}

func (n *NetNode) link(from peer.ID) *link {
	l, ok := n.links[from]
	if !ok {
		l = &link{}
		n.links[from] = l
		if !n.Net.Gated {
			l.ch = make(chan *Wire, 1024)
			ch := l.ch
			vsched.GoN(fmt.Sprintf("net:%s->%s", from, n.ID), func() {
				for {
					w := vsched.Recv(ch)
					n.deliver(from, w)
				}
			})
		}
	}
	return l
}

func (n *NetNode) enqueue(from peer.ID, w *Wire) {
	l := n.link(from)
	if n.Net.Gated {
		l.pending = append(l.pending, w)
		return
	}
	vsched.Send(l.ch, w)
}

func (n *NetNode) deliver(from peer.ID, w *Wire) {
	n.Inbox = append(n.Inbox, w)
	m, err := MH.FromNet(from, bytes.NewReader(w.Bytes))
	if err != nil {
		panic(fmt.Sprintf("harness: wire message does not decode: %v", err))
	}
	if n.Script != nil {
		n.Script(from, m)
		return
	}
	if n.Recv != nil {
		n.Recv.ReceiveMessage(context.Background(), from, m)
	}
}

// Pending returns the number of undelivered messages on link from->n (gated mode).
func (n *NetNode) Pending(from peer.ID) int { return len(n.link(from).pending) }

// DeliverNext delivers the next pending message on link from->n (gated mode).
func (n *NetNode) DeliverNext(from peer.ID) *Wire {
	l := n.link(from)
	if len(l.pending) == 0 {
		return nil
	}
	w := l.pending[0]
	l.pending = l.pending[1:]
	n.deliver(from, w)
	return w
}

// Inject delivers raw message m to n as if sent by `from` (scripted peers).
func (n *NetNode) Inject(from peer.ID, m gsmsg.GraphSyncMessage) {
	var buf bytes.Buffer
	if err := MH.ToNet(n.ID, m, &buf); err != nil {
		panic(err)
	}
	w := &Wire{Seq: len(n.Net.Wire), From: from, To: n.ID, Bytes: buf.Bytes(), Msg: m}
	n.Net.Wire = append(n.Net.Wire, w)
	n.deliver(from, w)
}
