package harness

import (
	"bytes"
	"fmt"
	"io"
	"strings"

	"github.com/ipld/go-ipld-prime"
	"github.com/ipld/go-ipld-prime/datamodel"
	"github.com/ipld/go-ipld-prime/linking"
	cidlink "github.com/ipld/go-ipld-prime/linking/cid"
	"github.com/ipld/go-ipld-prime/node/basicnode"
	"github.com/ipld/go-ipld-prime/traversal"
	"github.com/ipld/go-ipld-prime/traversal/selector"
)

// Reference traversal (DESIGN 5.1): go-ipld-prime's own walker over a link
// system whose loader implements the statement's rule. Independent of
// ipldutil.traverser, the reconciled loader and the query executor.

type Visit struct {
	Path string
	Node string // rendered node (kind + scalar value / link / map keys)
}

type LinkEvent struct {
	Path    string
	Link    ipld.Link
	Present bool
	From    string // "local" | "remote" | "missing"
}

type RefResult struct {
	Visits   []Visit
	Loads    []LinkEvent // every link the traversal tried to load, in order
	Missing  []LinkEvent
	Store    *Store // final requestor store (reference)
	RootMiss bool
	Err      error
	Budget   bool // budget exceeded
}

// RenderNode gives a compact canonical rendering of a visited node.
func RenderNode(n datamodel.Node) string {
	if n == nil {
		return "nil"
	}
	switch n.Kind() {
	case datamodel.Kind_Map:
		var ks []string
		it := n.MapIterator()
		for !it.Done() {
			k, _, err := it.Next()
			if err != nil {
				break
			}
			s, _ := k.AsString()
			ks = append(ks, s)
		}
		return "map{" + strings.Join(ks, ",") + "}"
	case datamodel.Kind_List:
		return fmt.Sprintf("list[%d]", n.Length())
	case datamodel.Kind_String:
		s, _ := n.AsString()
		return "s:" + s
	case datamodel.Kind_Bytes:
		b, _ := n.AsBytes()
		return "b:" + string(b)
	case datamodel.Kind_Int:
		i, _ := n.AsInt()
		return fmt.Sprintf("i:%d", i)
	case datamodel.Kind_Link:
		l, _ := n.AsLink()
		return "l:" + l.String()
	case datamodel.Kind_Null:
		return "null"
	case datamodel.Kind_Bool:
		b, _ := n.AsBool()
		return fmt.Sprintf("bool:%v", b)
	}
	return n.Kind().String()
}

type RefOpts struct {
	// Local / Remote: block availability. Remote==nil means "no responder".
	Local, Remote *Store
	// RemoteNeedsPath: a remote block is available only if every ancestor link
	// on the path is in the remote store (the responder can traverse there).
	RemoteNeedsPath bool
	// Budget: max number of link loads (0 = unlimited).
	Budget int64
}

// Reference runs the reference traversal.
func Reference(root ipld.Link, sel datamodel.Node, o RefOpts) *RefResult {
	res := &RefResult{Store: NewStore()}
	if o.Local != nil {
		res.Store = o.Local.Clone()
	}
	type reach struct {
		path string
		ok   bool
	}
	var reached []reach // link-load paths and whether the responder could reach them
	remoteReach := func(path string) bool {
		// the longest proper prefix that was a link load
		best, ok := -1, true
		for _, r := range reached {
			if r.path == path {
				continue
			}
			if r.path == "" || strings.HasPrefix(path, r.path+"/") {
				if len(r.path) > best {
					best, ok = len(r.path), r.ok
				}
			}
		}
		return ok
	}
	ls := cidlink.DefaultLinkSystem()
	ls.TrustedStorage = true
	// the identity ADL used by interpret-as selectors of the harness (C22)
	ls.KnownReifiers = map[string]linking.NodeReifier{"adl1": func(_ linking.LinkContext, n datamodel.Node, _ *linking.LinkSystem) (datamodel.Node, error) {
		return n, nil
	}}
	ls.StorageReadOpener = func(lc linking.LinkContext, l ipld.Link) (io.Reader, error) {
		path := lc.LinkPath.String()
		ev := LinkEvent{Path: path, Link: l}
		parentOK := remoteReach(path)
		inRemote := o.Remote != nil && o.Remote.Has(l)
		respCan := parentOK && inRemote
		if !o.RemoteNeedsPath {
			respCan = inRemote
		}
		reached = append(reached, reach{path, parentOK && inRemote})
		if b, ok := res.Store.M[l.Binary()]; ok {
			ev.Present, ev.From = true, "local"
			res.Loads = append(res.Loads, ev)
			return bytes.NewReader(b), nil
		}
		if respCan {
			b := o.Remote.M[l.Binary()]
			res.Store.Put(l, b)
			res.Store.Log = append(res.Store.Log, l.Binary())
			ev.Present, ev.From = true, "remote"
			res.Loads = append(res.Loads, ev)
			return bytes.NewReader(b), nil
		}
		ev.From = "missing"
		res.Loads = append(res.Loads, ev)
		res.Missing = append(res.Missing, ev)
		return nil, traversal.SkipMe{}
	}
	proto := basicnode.Prototype.Any
	rootNode, err := ls.Load(linking.LinkContext{}, root, proto)
	if err != nil {
		res.RootMiss = true
		res.Err = err
		return res
	}
	s, err := selector.ParseSelector(sel)
	if err != nil {
		res.Err = err
		return res
	}
	prog := traversal.Progress{Cfg: &traversal.Config{
		LinkSystem:                     ls,
		LinkTargetNodePrototypeChooser: func(ipld.Link, ipld.LinkContext) (ipld.NodePrototype, error) { return proto, nil },
	}}
	if o.Budget > 0 {
		// the root load is charged too
		prog.Budget = &traversal.Budget{NodeBudget: 1 << 40, LinkBudget: o.Budget - 1}
		if o.Budget-1 < 0 {
			res.Budget = true
			return res
		}
	}
	prog.LastBlock.Link = root
	err = prog.WalkAdv(rootNode, s, func(p traversal.Progress, n datamodel.Node, _ traversal.VisitReason) error {
		res.Visits = append(res.Visits, Visit{Path: p.Path.String(), Node: RenderNode(n)})
		return nil
	})
	if err != nil {
		if _, ok := err.(*traversal.ErrBudgetExceeded); ok {
			res.Budget = true
		} else {
			res.Err = err
		}
	}
	return res
}
