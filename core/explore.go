package core

import (
	"encoding/json"
	"fmt"
	"os"
	"runtime"
	"time"

	"github.com/ipfs/go-graphsync/zzverif/vsched"
)

// Exec is the outcome of one controlled execution.
type Exec struct {
	Sched   *vsched.Sched
	Outcome string     // outcome class (what the oracle observed, canonical)
	Viol    *Violation // nil: property held on this execution
}

// CostModel selects how alternatives are charged (DESIGN 3.4).
type CostModel int

const (
	Deviation  CostModel = iota // every non-default choice costs 1
	Preemption                  // only pre-emptions, non-first select cases and environment choices cost 1
)

type ExploreOpts struct {
	MaxBound int
	Cost     CostModel
	// Label is stored with violations so that a replay can find the scenario.
	Label any
	// Cfg is the base scheduler configuration.
	Cfg vsched.Config
	// MaxExecs caps executions per bound level in this shard (0 = none).
	MaxExecs int64
	// Filter, if set, restricts deviation to points for which it returns true
	// (focus sets); other points always take the default.
	Filter func(p vsched.Point) bool
	// NoShard: the whole tree is explored by the calling shard (the caller
	// distributes scenarios over shards itself).
	NoShard bool
	// Quiet: do not record a sample/notes per call (many small scenarios).
	Quiet bool
}

type SchedReplay struct {
	Label  any   `json:"label"`
	Prefix []int `json:"prefix"`
}

func cost(m CostModel, p vsched.Point) int {
	if m == Deviation {
		return 1
	}
	if p.Env || p.CurEnabled || p.Thread == -2 {
		return 1
	}
	return 0
}

// OnHang, when set (worker processes), is called instead of exiting when the watchdog fires: the worker
// reports the hang as a violation of the case being run, writes the results it has and ends.
var OnHang func(what, stacks string)

// Watch guards one execution with a wall-clock watchdog. The code under test never finishing one
// execution within the (generous) limit is reported as a violation by worker processes (the rest of the
// shard's cases are lost: exhaustive=false); elsewhere it is an engine error (exit 3 with stacks).
func Watch(what string, d time.Duration) *time.Timer {
	return time.AfterFunc(d, func() {
		buf := make([]byte, 1<<20)
		n := runtime.Stack(buf, true)
		if OnHang != nil {
			OnHang(what, string(buf[:n]))
			return
		}
		fmt.Fprintln(os.Stderr, "ENGINE-ERROR: execution hung:", what)
		os.Stderr.Write(buf[:n])
		os.Exit(3)
	})
}

// Explore enumerates all schedules of run within opts.MaxBound deviations by
// iterative deepening (bounds 0,1,..), sharding the level-1 subtrees.
// run must be deterministic for a given prefix.
func (c *Ctx) Explore(opts ExploreOpts, run func(cfg vsched.Config) Exec) {
	do := func(prefix []int) Exec {
		cfg := opts.Cfg
		cfg.Prefix = prefix
		wd := Watch(fmt.Sprintf("%s label=%v prefix=%v", c.ID, opts.Label, prefix), 60*time.Second)
		x := run(cfg)
		wd.Stop()
		return x
	}
	// determinism gate: default schedule twice, identical traces
	a, b := do(nil), do(nil)
	if !sameTrace(a.Sched.Trace, b.Sched.Trace) || a.Outcome != b.Outcome {
		c.EngineError("determinism gate failed for %v: traces %d vs %d points, outcomes %q vs %q", opts.Label, len(a.Sched.Trace), len(b.Sched.Trace), a.Outcome, b.Outcome)
		return
	}
	c.Count("determinism_gate_passed", 1)
	completed := -1
	var level1 int64
	capped := false
	for bound := 0; bound <= opts.MaxBound && !capped; bound++ {
		var execs int64
		level1 = 0
		var rec func(prefix []int, costSoFar int, depth int)
		rec = func(prefix []int, costSoFar int, depth int) {
			if capped {
				return
			}
			if c.Expired() || (opts.MaxExecs > 0 && execs >= opts.MaxExecs) {
				capped = true
				return
			}
			x := do(prefix)
			execs++
			s := x.Sched
			if s.Diverged != "" {
				c.EngineError("%v: %s", opts.Label, s.Diverged)
				return
			}
			// only count executions whose cost is exactly `bound` (lower ones were counted before)
			if costSoFar == bound {
				c.Res.Traces++
				c.Res.Evaluations++
				c.Res.Transitions += int64(s.Steps)
				c.Class(x.Outcome)
				if s.StepLimit {
					c.Count("step_limit_hit", 1)
				}
				if x.Viol != nil {
					c.confirm(opts, do, prefix, x)
				}
			}
			for i := max(len(prefix), s.MarkAt); i < len(s.Trace); i++ {
				p := s.Trace[i]
				if opts.Filter != nil && !opts.Filter(p) {
					continue
				}
				k := cost(opts.Cost, p)
				if costSoFar+k > bound {
					continue
				}
				for alt := 1; alt < p.N; alt++ {
					if depth == 0 {
						level1++
						if !opts.NoShard && !c.Mine(level1) {
							continue
						}
					}
					np := make([]int, i+1)
					for j := 0; j < i; j++ {
						np[j] = s.Trace[j].Choice
					}
					np[i] = alt
					rec(np, costSoFar+k, depth+1)
				}
			}
		}
		if bound == 0 {
			if opts.NoShard || c.Mine(0) {
				rec(nil, 0, 0)
			}
		} else {
			// the root is re-executed by every shard only to enumerate its level-1 children
			rec(nil, 0, 0)
		}
		if !capped {
			completed = bound
		}
	}
	if capped {
		c.Res.Exhaustive = false
		c.Note("%v: exploration capped (deadline/max-execs) after completing bound %d", opts.Label, completed)
	}
	if c.Res.BoundCompleted < 0 || completed < c.Res.BoundCompleted {
		c.Res.BoundCompleted = completed
	}
}

// confirm re-runs a violating schedule 5 times; it is reported only if it
// fails identically every time (otherwise: engine error, never a violation).
func (c *Ctx) confirm(opts ExploreOpts, do func([]int) Exec, prefix []int, x Exec) {
	full := make([]int, len(x.Sched.Trace))
	for i, p := range x.Sched.Trace {
		full[i] = p.Choice
	}
	for k := 0; k < 5; k++ {
		y := do(full)
		if y.Viol == nil || y.Viol.Signature != x.Viol.Signature || y.Sched.Diverged != "" {
			c.EngineError("violation %q of %v not reproducible on replay %d (prefix %v)", x.Viol.Signature, opts.Label, k, prefix)
			return
		}
	}
	v := x.Viol
	c.Violate(v.Signature, v.What, map[string]any{"label": opts.Label, "prefix": trim(full), "case": v.Replay, "early_timers": opts.Cfg.EarlyTimers})
}

func trim(p []int) []int {
	n := len(p)
	for n > 0 && p[n-1] == 0 {
		n--
	}
	return p[:n]
}

func sameTrace(a, b []vsched.Point) bool {
	if len(a) != len(b) {
		return false
	}
	for i := range a {
		if a[i] != b[i] {
			return false
		}
	}
	return true
}

// RunOnce runs body under the default schedule (deterministic executor for
// E2/E3 checks) with the watchdog.
func RunOnce(label string, cfg vsched.Config, body func()) *vsched.Sched {
	wd := Watch(label, 60*time.Second)
	s := vsched.Run(cfg, body)
	wd.Stop()
	return s
}

// ExploreSlow runs the scenario once per thread of the default execution with
// that thread demoted ("slow": it runs only when nothing else can), optionally
// starting the demotion at each of the given step offsets. One high-level
// decision replaces the many low-level deviations a slow goroutine would need;
// the enumeration is exhaustive over (thread, offset).
func (c *Ctx) ExploreSlow(label any, base vsched.Config, offsets []int, run func(cfg vsched.Config) Exec) {
	wd := Watch(fmt.Sprintf("%s slow label=%v", c.ID, label), 120*time.Second)
	x := run(base)
	wd.Stop()
	n := len(x.Sched.Threads())
	if len(offsets) == 0 {
		offsets = []int{0}
	}
	for t := 1; t < n; t++ {
		for _, off := range offsets {
			if c.Expired() {
				c.Res.Exhaustive = false
				return
			}
			cfg := base
			cfg.Slow = map[int]bool{t: true}
			cfg.SlowFrom = off
			wd := Watch(fmt.Sprintf("%s slow thread %d from %d label=%v", c.ID, t, off, label), 120*time.Second)
			y := run(cfg)
			wd.Stop()
			c.Res.Traces++
			c.Res.Evaluations++
			c.Res.Transitions += int64(y.Sched.Steps)
			c.Class("slow-thread: " + y.Outcome)
			c.Count("slow_thread_executions", 1)
			if y.Viol != nil {
				// confirm determinism: the same configuration must fail identically
				ok := true
				for k := 0; k < 3; k++ {
					z := run(cfg)
					if z.Viol == nil || z.Viol.Signature != y.Viol.Signature {
						ok = false
					}
				}
				if !ok {
					c.EngineError("slow-thread violation %q of %v (thread %d from %d) not reproducible", y.Viol.Signature, label, t, off)
					continue
				}
				c.Violate(y.Viol.Signature, y.Viol.What+fmt.Sprintf(" [thread %d demoted from step %d]", t, off), map[string]any{"label": label, "slow_thread": t, "slow_from": off, "case": y.Viol.Replay, "early_timers": base.EarlyTimers, "eager_timers": base.EagerTimers})
			}
		}
	}
}

// ExploreSlowEarly is ExploreSlow with one-shot timers firing as early as they
// can (vsched.Config.EagerTimers): a slow thread while time passes quickly.
func (c *Ctx) ExploreSlowEarly(label any, run func(cfg vsched.Config) Exec) {
	c.ExploreSlow(label, vsched.Config{EagerTimers: true}, []int{0, 100}, run)
}

// CfgFromReplay rebuilds the scheduler configuration recorded with a
// violation: a choice prefix (Explore) or a demoted thread (ExploreSlow).
func CfgFromReplay(raw []byte) vsched.Config {
	var w struct {
		Prefix     []int `json:"prefix"`
		SlowThread *int  `json:"slow_thread"`
		SlowFrom   int   `json:"slow_from"`
		Early      bool  `json:"early_timers"`
		Eager      bool  `json:"eager_timers"`
	}
	_ = json.Unmarshal(raw, &w)
	cfg := vsched.Config{Prefix: w.Prefix, EarlyTimers: w.Early, EagerTimers: w.Eager}
	if w.SlowThread != nil {
		cfg.Slow = map[int]bool{*w.SlowThread: true}
		cfg.SlowFrom = w.SlowFrom
	}
	return cfg
}
