// Package core: result accumulation, sharding, evidence and known-finding
// handling shared by all property checks.
package core

import (
	"encoding/json"
	"fmt"
	"os"
	"os/exec"
	"path/filepath"
	"sort"
	"strconv"
	"strings"
	"sync"
	"time"
)

// Violation is one property violation with a discrete signature (the minimal
// cause the oracle can name) and everything needed to replay it.
type Violation struct {
	Signature string `json:"signature"`
	What      string `json:"what"`
	Replay    any    `json:"replay"`
}

// Result is what one worker (shard) measured.
type Result struct {
	Evaluations    int64            `json:"evaluations"`
	States         int64            `json:"states"`
	Transitions    int64            `json:"transitions"`
	Traces         int64            `json:"traces"`
	Classes        map[string]int64 `json:"classes"`
	Samples        []any            `json:"samples"`
	Violations     []Violation      `json:"violations"`
	Counters       map[string]int64 `json:"counters"`
	Exhaustive     bool             `json:"exhaustive"`
	BoundCompleted int              `json:"bound_completed"`
	Notes          []string         `json:"notes"`
	EngineErrors   []string         `json:"engine_errors"`
	violSeen       map[string]int
}

// Ctx is handed to a property's Run function.
type Ctx struct {
	ID       string
	Tier     string
	Shard    int
	NShards  int
	Deadline time.Time
	Res      *Result
	mu       sync.Mutex
}

func NewResult() *Result {
	return &Result{Classes: map[string]int64{}, Counters: map[string]int64{}, Exhaustive: true, BoundCompleted: -1, violSeen: map[string]int{}}
}

func (c *Ctx) Thorough() bool { return c.Tier == "thorough" }

// Mine reports whether case index i belongs to this shard.
func (c *Ctx) Mine(i int64) bool { return c.NShards <= 1 || int(i%int64(c.NShards)) == c.Shard }

func (c *Ctx) Expired() bool { return !c.Deadline.IsZero() && time.Now().After(c.Deadline) }

func (c *Ctx) Class(k string) {
	c.Res.Classes[k]++
}

func (c *Ctx) Count(k string, n int64) { c.Res.Counters[k] += n }

func (c *Ctx) Sample(v any) {
	if len(c.Res.Samples) < 4 {
		c.Res.Samples = append(c.Res.Samples, v)
	}
}

func (c *Ctx) Note(format string, a ...any) {
	c.Res.Notes = append(c.Res.Notes, fmt.Sprintf(format, a...))
}

func (c *Ctx) EngineError(format string, a ...any) {
	if len(c.Res.EngineErrors) < 10 {
		c.Res.EngineErrors = append(c.Res.EngineErrors, fmt.Sprintf(format, a...))
	}
}

// Violate records a violation (at most 3 per signature are kept).
func (c *Ctx) Violate(sig, what string, replay any) {
	if c.Res.violSeen == nil {
		c.Res.violSeen = map[string]int{}
	}
	c.Res.violSeen[sig]++
	c.Count("violations:"+sig, 1)
	if c.Res.violSeen[sig] > 2 {
		return
	}
	c.Res.Violations = append(c.Res.Violations, Violation{Signature: sig, What: what, Replay: replay})
}

// ---- known findings

type Finding struct {
	Property  string `json:"property"`
	Signature string `json:"signature"`
	Status    string `json:"status"` // "known" | "fixed"
	What      string `json:"what"`
	Commit    string `json:"commit,omitempty"`
	Replay    string `json:"replay,omitempty"`
	Line      string `json:"line,omitempty"`
}

func LoadFindings(path string) []Finding {
	b, err := os.ReadFile(path)
	if err != nil {
		return nil
	}
	var f struct {
		Findings []Finding `json:"findings"`
	}
	if err := json.Unmarshal(b, &f); err != nil {
		fmt.Fprintln(os.Stderr, "known_findings.json unreadable:", err)
		os.Exit(2)
	}
	return f.Findings
}

// ---- property registry

type Prop struct {
	ID    string
	Level string // evidence level
	Rule  string // how cases are enumerated and what makes a class distinct
	// Assumptions recorded in evidence
	Assumptions []string
	Run         func(c *Ctx)
	Replay      func(raw json.RawMessage) string
	// Budget: soft deadline per tier (seconds); a run that hits it ends exit 0, exhaustive:false
	QuickBudget, ThoroughBudget int
	Serial                      bool // do not shard
	NoQuickPhase                bool // thorough tier: do not run the quick parameter space first (the thorough run is a breadth-first superset)
}

var Registry = map[string]*Prop{}

func Register(p *Prop) { Registry[p.ID] = p }

// ---- parent / worker driver

func Main() {
	if len(os.Args) < 2 {
		fmt.Fprintln(os.Stderr, "usage: check <ID> <quick|thorough> | check replay <file> | check -worker ...")
		os.Exit(2)
	}
	if os.Args[1] == "replay" {
		replayMain(os.Args[2])
		return
	}
	if os.Args[1] == "-worker" {
		workerMain(os.Args[2:])
		return
	}
	if os.Args[1] == "list" {
		ids := []string{}
		for id := range Registry {
			ids = append(ids, id)
		}
		sort.Strings(ids)
		fmt.Println(strings.Join(ids, " "))
		return
	}
	id := os.Args[1]
	// the tier named on the command line wins; VERIF_TIER is only the default
	tier := "quick"
	if t := os.Getenv("VERIF_TIER"); t == "quick" || t == "thorough" {
		tier = t
	}
	if len(os.Args) > 2 && (os.Args[2] == "quick" || os.Args[2] == "thorough") {
		tier = os.Args[2]
	}
	os.Exit(parentMain(id, tier))
}

func workerMain(args []string) {
	// -worker ID tier shard nshards deadlineUnix outfile
	id, tier := args[0], args[1]
	shard, _ := strconv.Atoi(args[2])
	n, _ := strconv.Atoi(args[3])
	dl, _ := strconv.ParseInt(args[4], 10, 64)
	out := args[5]
	p := Registry[id]
	if p == nil {
		fmt.Fprintln(os.Stderr, "unknown property", id)
		os.Exit(2)
	}
	c := &Ctx{ID: id, Tier: tier, Shard: shard, NShards: n, Res: NewResult()}
	if dl > 0 {
		c.Deadline = time.Unix(dl, 0)
	}
	OnHang = func(what, stacks string) {
		// one execution of the code under test never finished: report it for the case being run and end the shard
		fmt.Fprintln(os.Stderr, "execution hung:", what)
		fmt.Fprintln(os.Stderr, stacks)
		c.mu.Lock()
		r := c.Res
		r.Exhaustive = false
		r.Notes = append(r.Notes, "one execution never finished (reported as a violation); the rest of this shard's cases were not run")
		r.Violations = append(r.Violations, Violation{Signature: "execution-never-finishes", What: "one execution did not finish within the watchdog limit (the code under test hangs or spins): " + what, Replay: map[string]any{"hung": what}})
		b, _ := json.Marshal(r)
		_ = os.WriteFile(out, b, 0o644)
		os.Exit(0)
	}
	if tier == "thorough" && !p.NoQuickPhase {
		// phase 1: the quick tier's whole parameter space first (so that a deadline in the deeper pass never
		// leaves late cases unexplored), phase 2: the thorough parameters
		c.Tier = "quick"
		p.Run(c)
		q := c.Res
		c.Tier = "thorough"
		c.Res = NewResult()
		p.Run(c)
		t := c.Res
		t.Evaluations += q.Evaluations
		t.States += q.States
		t.Transitions += q.Transitions
		t.Traces += q.Traces
		for k, v := range q.Classes {
			t.Classes[k] += v
		}
		for k, v := range q.Counters {
			t.Counters["quick_phase_"+k] += v
		}
		t.Violations = append(q.Violations, t.Violations...)
		t.EngineErrors = append(q.EngineErrors, t.EngineErrors...)
		t.Notes = append(q.Notes, t.Notes...)
		if !q.Exhaustive {
			t.Exhaustive = false
			t.BoundCompleted = min(q.BoundCompleted, t.BoundCompleted)
			t.Notes = append(t.Notes, "the quick-tier phase itself was cut short by the deadline")
		} else if !t.Exhaustive {
			t.Counters["quick_phase_completed_exhaustively"] = 1
			if q.BoundCompleted > t.BoundCompleted {
				// every case of the quick tier's space was explored to this bound; the deeper pass was cut short
				t.BoundCompleted = q.BoundCompleted
			}
		}
	} else {
		p.Run(c)
	}
	b, _ := json.Marshal(c.Res)
	if err := os.WriteFile(out, b, 0o644); err != nil {
		fmt.Fprintln(os.Stderr, err)
		os.Exit(2)
	}
}

func verifDir() string {
	if d := os.Getenv("VERIF_DIR"); d != "" {
		return d
	}
	return "/verif"
}

func parentMain(id, tier string) int {
	p := Registry[id]
	if p == nil {
		fmt.Fprintln(os.Stderr, "unknown property", id)
		return 2
	}
	t0 := time.Now()
	vd := verifDir()
	seed := 0
	if s := os.Getenv("VERIF_SEED"); s != "" {
		seed, _ = strconv.Atoi(s)
	}
	n := 16
	if s := os.Getenv("VERIF_SHARDS"); s != "" {
		n, _ = strconv.Atoi(s)
	}
	if p.Serial {
		n = 1
	}
	budget := p.QuickBudget
	if tier == "thorough" {
		budget = p.ThoroughBudget
	}
	if s := os.Getenv("VERIF_BUDGET"); s != "" {
		budget, _ = strconv.Atoi(s)
	}
	var dl int64
	if budget > 0 {
		dl = time.Now().Add(time.Duration(budget) * time.Second).Unix()
	}
	work := filepath.Join(vd, ".work", "shards", id)
	os.RemoveAll(work)
	os.MkdirAll(work, 0o755)
	self, _ := os.Executable()
	type wres struct {
		res  *Result
		err  string
		code int
	}
	results := make([]wres, n)
	var wg sync.WaitGroup
	for i := 0; i < n; i++ {
		wg.Add(1)
		go func(i int) {
			defer wg.Done()
			out := filepath.Join(work, fmt.Sprintf("%d.json", i))
			cmd := exec.Command(self, "-worker", id, tier, strconv.Itoa(i), strconv.Itoa(n), strconv.FormatInt(dl, 10), out)
			logf, _ := os.Create(filepath.Join(work, fmt.Sprintf("%d.log", i)))
			cmd.Stdout, cmd.Stderr = logf, logf
			cmd.Env = append(os.Environ(), "GOMAXPROCS=2", "GOLOG_LOG_LEVEL=fatal")
			err := cmd.Run()
			logf.Close()
			if err != nil {
				results[i] = wres{err: err.Error(), code: 2}
				return
			}
			b, err := os.ReadFile(out)
			if err != nil {
				results[i] = wres{err: err.Error(), code: 2}
				return
			}
			r := NewResult()
			if err := json.Unmarshal(b, r); err != nil {
				results[i] = wres{err: err.Error(), code: 2}
				return
			}
			results[i] = wres{res: r}
		}(i)
	}
	wg.Wait()
	tot := NewResult()
	tot.BoundCompleted = 1 << 30
	engineErr := false
	for i, w := range results {
		if w.res == nil {
			engineErr = true
			fmt.Fprintf(os.Stderr, "ENGINE-ERROR shard %d: %s (log %s/%d.log)\n", i, w.err, work, i)
			continue
		}
		r := w.res
		tot.Evaluations += r.Evaluations
		tot.States += r.States
		tot.Transitions += r.Transitions
		tot.Traces += r.Traces
		for k, v := range r.Classes {
			tot.Classes[k] += v
		}
		for k, v := range r.Counters {
			tot.Counters[k] += v
		}
		for _, s := range r.Samples {
			if len(tot.Samples) < 5 {
				tot.Samples = append(tot.Samples, s)
			}
		}
		tot.Violations = append(tot.Violations, r.Violations...)
		tot.Exhaustive = tot.Exhaustive && r.Exhaustive
		if r.BoundCompleted < tot.BoundCompleted {
			tot.BoundCompleted = r.BoundCompleted
		}
		for _, nn := range r.Notes {
			dup := false
			for _, o := range tot.Notes {
				dup = dup || o == nn
			}
			if !dup && len(tot.Notes) < 20 {
				tot.Notes = append(tot.Notes, nn)
			}
		}
		tot.EngineErrors = append(tot.EngineErrors, r.EngineErrors...)
	}
	if len(tot.EngineErrors) > 0 {
		engineErr = true
		for _, e := range tot.EngineErrors {
			fmt.Fprintln(os.Stderr, "ENGINE-ERROR", e)
		}
	}
	// classify violations against the committed known-findings file
	fpath := filepath.Join(vd, "known_findings.json")
	if alt := os.Getenv("VERIF_FINDINGS_FILE"); alt != "" {
		fpath = alt // maintenance only: regenerate replay artefacts of listed findings
	}
	findings := LoadFindings(fpath)
	known := map[string]Finding{}
	for _, f := range findings {
		if f.Property == id && f.Status == "known" {
			known[f.Signature] = f
		}
	}
	printedKnown := map[string]bool{}
	nviol := 0
	os.MkdirAll(filepath.Join(vd, "out", "replay"), 0o755)
	sort.SliceStable(tot.Violations, func(i, j int) bool { return tot.Violations[i].Signature < tot.Violations[j].Signature })
	seenSig := map[string]int{}
	for _, v := range tot.Violations {
		if f, ok := known[v.Signature]; ok {
			if !printedKnown[v.Signature] {
				printedKnown[v.Signature] = true
				fmt.Printf("KNOWN-FINDING: property=%s %s [%s]\n", id, f.What, v.Signature)
			}
			continue
		}
		seenSig[v.Signature]++
		if seenSig[v.Signature] > 2 {
			continue
		}
		nviol++
		path := filepath.Join(vd, "out", "replay", fmt.Sprintf("%s-%d.json", id, nviol))
		b, _ := json.MarshalIndent(map[string]any{"property": id, "signature": v.Signature, "what": v.What, "replay": v.Replay}, "", " ")
		os.WriteFile(path, b, 0o644)
		fmt.Printf("VIOLATION property=%s replay=%s\n", id, path)
		fmt.Printf("  signature=%s\n  %s\n", v.Signature, v.What)
	}
	wall := time.Since(t0).Seconds()
	if !engineErr || nviol > 0 {
		writeEvidence(vd, p, id, tier, seed, tot, nviol, len(printedKnown), wall, n)
	}
	fmt.Printf("check %s tier=%s: evaluations=%d states=%d transitions=%d classes=%d exhaustive=%v bound_completed=%d known=%d violations=%d wall=%.1fs\n",
		id, tier, tot.Evaluations, tot.States, tot.Transitions, len(tot.Classes), tot.Exhaustive, tot.BoundCompleted, len(printedKnown), nviol, wall)
	if nviol > 0 {
		return 1
	}
	if engineErr {
		return 2
	}
	return 0
}

func writeEvidence(vd string, p *Prop, id, tier string, seed int, tot *Result, nviol, nknown int, wall float64, shards int) {
	cov := map[string]any{}
	ev := tot.Evaluations
	if ev == 0 {
		ev = tot.Traces
	}
	cov["evaluations"] = ev
	cov["distinct_nontrivial"] = len(tot.Classes)
	cov["rule"] = p.Rule
	samples := tot.Samples
	if len(samples) == 0 {
		samples = []any{"(no sample recorded)"}
	}
	cov["samples"] = samples
	cov["exhaustive"] = tot.Exhaustive
	if p.Level == "model_checking" {
		st := tot.States
		if st == 0 {
			st = int64(len(tot.Classes))
		}
		cov["states"] = st
		cov["transitions"] = tot.Transitions
		cov["traces_validated_against_impl"] = tot.Traces
	}
	if tot.BoundCompleted >= 0 && tot.BoundCompleted < 1<<30 {
		cov["bound_completed"] = tot.BoundCompleted
	}
	// class histogram (top 12) and vacuity counters
	type kv struct {
		K string
		V int64
	}
	var cl []kv
	for k, v := range tot.Classes {
		cl = append(cl, kv{k, v})
	}
	sort.Slice(cl, func(i, j int) bool { return cl[i].V > cl[j].V || (cl[i].V == cl[j].V && cl[i].K < cl[j].K) })
	if len(cl) > 12 {
		cl = cl[:12]
	}
	hist := map[string]int64{}
	for _, e := range cl {
		k := e.K
		if len(k) > 160 {
			k = k[:160] + "…"
		}
		hist[k] = e.V
	}
	cov["outcome_classes_top"] = hist
	cov["counters"] = tot.Counters
	cov["notes"] = tot.Notes
	cov["shards"] = shards
	cov["known_findings_seen"] = nknown
	var warnings []string
	if len(tot.Classes) < 2 {
		warnings = append(warnings, "fewer than 2 distinct outcome classes: exploration may be vacuous")
	}
	cov["warnings"] = warnings
	e := map[string]any{
		"property_id": id, "tier": tier, "seed": seed, "level": p.Level,
		"coverage": cov, "assumptions": p.Assumptions, "wall_s": wall, "violations": nviol,
	}
	b, _ := json.MarshalIndent(e, "", " ")
	os.MkdirAll(filepath.Join(vd, "evidence"), 0o755)
	os.WriteFile(filepath.Join(vd, "evidence", id+".json"), b, 0o644)
}

func replayMain(path string) {
	b, err := os.ReadFile(path)
	if err != nil {
		fmt.Fprintln(os.Stderr, err)
		os.Exit(2)
	}
	var r struct {
		Property  string          `json:"property"`
		Signature string          `json:"signature"`
		What      string          `json:"what"`
		Replay    json.RawMessage `json:"replay"`
	}
	if err := json.Unmarshal(b, &r); err != nil {
		fmt.Fprintln(os.Stderr, err)
		os.Exit(2)
	}
	p := Registry[r.Property]
	if p == nil || p.Replay == nil {
		fmt.Printf("property %s: no replay function; recorded case:\n%s\n", r.Property, string(r.Replay))
		os.Exit(0)
	}
	fmt.Printf("replaying %s signature=%s\n", r.Property, r.Signature)
	got := p.Replay(r.Replay)
	fmt.Println(got)
	if got != "" && got != "ok" {
		os.Exit(1)
	}
}
