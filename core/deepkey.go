package core

import (
	"fmt"
	"reflect"
	"sort"
	"strings"
	"unsafe"
)

// DeepKey renders the object graph reachable from v as a canonical string:
// unexported fields included (reflect+unsafe, by reading only), maps sorted by
// rendered key, pointers renamed by first occurrence, channels rendered as
// len/cap, funcs and the fields named in skip omitted. It is used as the
// canonical state key of explicit-state searches (DESIGN 4.2): two states are
// merged only if every field that can influence the future renders equal.
type DeepOpts struct {
	SkipFields map[string]bool // "TypeName.field" or ".field"
	SkipTypes  map[string]bool // full type string
	MaxDepth   int
	BytesAsLen bool // render []byte as its length only
	SortSlices bool // render slice elements in sorted order (only where element order cannot influence the future)
}

func DeepKey(v any, o DeepOpts) string {
	d := &dumper{o: o, seen: map[unsafe.Pointer]int{}}
	if d.o.MaxDepth == 0 {
		d.o.MaxDepth = 40
	}
	var sb strings.Builder
	d.dump(&sb, reflect.ValueOf(v), 0)
	return sb.String()
}

type dumper struct {
	o    DeepOpts
	seen map[unsafe.Pointer]int
}

func readable(v reflect.Value) reflect.Value {
	if v.CanInterface() || !v.CanAddr() {
		return v
	}
	return reflect.NewAt(v.Type(), unsafe.Pointer(v.UnsafeAddr())).Elem()
}

func (d *dumper) dump(sb *strings.Builder, v reflect.Value, depth int) {
	if !v.IsValid() {
		sb.WriteString("nil")
		return
	}
	if depth > d.o.MaxDepth {
		sb.WriteString("…")
		return
	}
	ts := v.Type().String()
	if d.o.SkipTypes[ts] {
		sb.WriteString("_")
		return
	}
	switch v.Kind() {
	case reflect.Bool:
		fmt.Fprint(sb, v.Bool())
	case reflect.Int, reflect.Int8, reflect.Int16, reflect.Int32, reflect.Int64:
		fmt.Fprint(sb, v.Int())
	case reflect.Uint, reflect.Uint8, reflect.Uint16, reflect.Uint32, reflect.Uint64, reflect.Uintptr:
		fmt.Fprint(sb, v.Uint())
	case reflect.Float32, reflect.Float64:
		fmt.Fprint(sb, v.Float())
	case reflect.String:
		fmt.Fprintf(sb, "%q", v.String())
	case reflect.Func, reflect.UnsafePointer:
		sb.WriteString("fn")
	case reflect.Chan:
		if v.IsNil() {
			sb.WriteString("chan(nil)")
		} else {
			fmt.Fprintf(sb, "chan(%d/%d)", v.Len(), v.Cap())
		}
	case reflect.Ptr:
		if v.IsNil() {
			sb.WriteString("nil")
			return
		}
		p := v.UnsafePointer()
		if id, ok := d.seen[p]; ok {
			fmt.Fprintf(sb, "&%d", id)
			return
		}
		id := len(d.seen)
		d.seen[p] = id
		fmt.Fprintf(sb, "&%d=", id)
		d.dump(sb, v.Elem(), depth+1)
	case reflect.Interface:
		if v.IsNil() {
			sb.WriteString("nil")
			return
		}
		e := v.Elem()
		sb.WriteString("(" + e.Type().String() + ")")
		if e.Kind() == reflect.Ptr || e.CanAddr() {
			d.dump(sb, e, depth+1)
		} else {
			// copy into an addressable value so unexported fields can be read
			c := reflect.New(e.Type()).Elem()
			c.Set(e)
			d.dump(sb, c, depth+1)
		}
	case reflect.Slice, reflect.Array:
		if v.Kind() == reflect.Slice && v.Type().Elem().Kind() == reflect.Uint8 {
			if d.o.BytesAsLen {
				fmt.Fprintf(sb, "bytes(%d)", v.Len())
				return
			}
			fmt.Fprintf(sb, "%x", readable(v).Bytes())
			return
		}
		if d.o.SortSlices && v.Kind() == reflect.Slice {
			parts := make([]string, v.Len())
			for i := 0; i < v.Len(); i++ {
				var eb strings.Builder
				d.dump(&eb, v.Index(i), depth+1)
				parts[i] = eb.String()
			}
			sort.Strings(parts)
			sb.WriteString("[" + strings.Join(parts, ",") + "]")
			return
		}
		sb.WriteString("[")
		for i := 0; i < v.Len(); i++ {
			if i > 0 {
				sb.WriteString(",")
			}
			d.dump(sb, v.Index(i), depth+1)
		}
		sb.WriteString("]")
	case reflect.Map:
		// second pass in sorted key order so pointer ids are assigned canonically
		keys := v.MapKeys()
		ks := make([]string, len(keys))
		for i, k := range keys {
			var kb strings.Builder
			kd := &dumper{o: d.o, seen: map[unsafe.Pointer]int{}}
			kd.dump(&kb, addressable(k), depth+1)
			ks[i] = kb.String()
		}
		idx := make([]int, len(keys))
		for i := range idx {
			idx[i] = i
		}
		sort.SliceStable(idx, func(a, b int) bool { return ks[idx[a]] < ks[idx[b]] })
		sb.WriteString("{")
		for n, i := range idx {
			if n > 0 {
				sb.WriteString(",")
			}
			sb.WriteString(ks[i])
			sb.WriteString(":")
			d.dump(sb, addressable(v.MapIndex(keys[i])), depth+1)
		}
		sb.WriteString("}")
	case reflect.Struct:
		t := v.Type()
		sb.WriteString(t.Name() + "{")
		first := true
		for i := 0; i < v.NumField(); i++ {
			f := t.Field(i)
			if d.o.SkipFields["."+f.Name] || d.o.SkipFields[t.Name()+"."+f.Name] {
				continue
			}
			if !first {
				sb.WriteString(",")
			}
			first = false
			sb.WriteString(f.Name + ":")
			fv := v.Field(i)
			if !fv.CanAddr() {
				c := reflect.New(t).Elem()
				c.Set(v)
				fv = c.Field(i)
			}
			d.dump(sb, readable(fv), depth+1)
		}
		sb.WriteString("}")
	default:
		fmt.Fprintf(sb, "?%s", v.Kind())
	}
}

func addressable(v reflect.Value) reflect.Value {
	if v.CanAddr() || v.Kind() == reflect.Ptr {
		return v
	}
	c := reflect.New(v.Type()).Elem()
	c.Set(v)
	return c
}

// Field reads a (possibly unexported) field by name from a struct or pointer
// to struct; ok=false when it does not exist (edited tree).
func Field(v any, name string) (reflect.Value, bool) {
	rv := reflect.ValueOf(v)
	for rv.Kind() == reflect.Ptr || rv.Kind() == reflect.Interface {
		if rv.IsNil() {
			return reflect.Value{}, false
		}
		rv = rv.Elem()
	}
	if rv.Kind() != reflect.Struct {
		return reflect.Value{}, false
	}
	f := rv.FieldByName(name)
	if !f.IsValid() {
		return reflect.Value{}, false
	}
	return readable(f), true
}
