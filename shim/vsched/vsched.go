// Package vsched is a cooperative, deterministic scheduler over real Go
// channels and shim sync primitives. It is injected into the go-graphsync
// module by `go build -overlay` (import path .../zzverif/vsched); the rewritten
// repository code and the harnesses call it for every synchronisation
// operation. Exactly one thread runs at a time; at every operation the
// scheduler computes the enabled transitions in a canonical order and follows
// a recorded choice sequence (prefix), then choice 0.
//
// When no scheduler is active (S == nil) every operation falls through to the
// real Go operation, so the rewritten repository also runs free (used for the
// rewriter-conformance run of the repository's own test-suite and for the
// free-running -race pass).
package vsched

import (
	"fmt"
	"reflect"
	"runtime"
	"sort"
	"sync"
	"time"
)

type opKind int

const (
	opNone opKind = iota
	opStart
	opResume
	opLock
	opRLock
	opCondWait
	opWGWait
	opChan // send / recv / select
	opQuiesce
)

var opNames = []string{"none", "start", "resume", "lock", "rlock", "condwait", "wgwait", "chan", "quiesce"}

type chanCase struct {
	send bool
	rv   reflect.Value
	id   uintptr
	nilc bool
	buf  int
}

type directive int

const (
	dRun directive = iota
	dPassive
	dKill
)

// Thread is one controlled goroutine.
type Thread struct {
	id      int
	name    string
	wake    chan directive
	op      opKind
	obj     any
	cases   []chanCase
	hasDef  bool
	chosen  int
	passive bool
	arrival uint64
	blocked bool // found disabled at least once since arrival (really parked)
	done    bool
	sig     bool // cond signalled
}

// Point is one *branching* scheduling or environment decision (N > 1).
type Point struct {
	N          int  // number of alternatives
	Choice     int  // alternative taken
	Thread     int  // thread chosen (-1: environment choice, -2: timer)
	CurEnabled bool // the running thread was itself still enabled (switching away = pre-emption)
	Env        bool // environment choice (vsched.Choose) rather than scheduling
	Sig        uint32
}

// ThreadInfo is the externally visible state of a thread (for oracles).
type ThreadInfo struct {
	ID      int
	Name    string
	Done    bool
	Op      string
	Blocked bool
}

// Sched is one controlled execution.
type Sched struct {
	threads  []*Thread
	cur      *Thread
	prefix   []int
	Trace    []Point
	ack      chan struct{}
	finished chan struct{}
	finOnce  sync.Once
	killing  bool
	arrival  uint64
	closed   map[uintptr]bool
	keep     []reflect.Value
	timers   []*timer
	now      time.Duration
	exited   chan struct{}

	// results
	Deadlock   bool
	Steps      int // all transitions executed (branching or not)
	Panic      any
	PanicStack string
	Diverged   string // non-empty: replay divergence (engine error)
	MarkAt     int    // trace length when Mark was called (exploration starts deviating here)
	StepLimit  bool

	// configuration
	MaxTicks    int  // consecutive idle ticker firings allowed at quiescence
	EarlyTimers bool // one-shot timers may fire before quiescence (environment alternative)
	MaxSteps    int
	onDeadlock  func()
	fast        bool
	enBuf       []trans
	slow        map[int]bool
	slowFrom    int
	eagerTimers bool

	ticks        int
	lastTickStep int
	Log          []string
	Verbose      bool
}

type timer struct {
	at     time.Duration
	period time.Duration
	ch     chan time.Time
	dead   bool
	seq    int
}

// S is the active scheduler (nil: free-running).
var S *Sched

// Config for Run.
type Config struct {
	Prefix      []int
	MaxTicks    int
	EarlyTimers bool
	MaxSteps    int
	Verbose     bool
	// OnDeadlock runs (on the thread that detected it, before anything is
	// killed) when no transition is enabled; it must not call shim operations.
	OnDeadlock func()
	// Slow: ids of threads that are demoted: their transitions are ordered after
	// everybody else's, so by default they run only when nothing else can
	// (a "slow" goroutine; one high-level decision instead of many deviations).
	// SlowFrom: the demotion starts once this many transitions were executed.
	Slow     map[int]bool
	SlowFrom int
	// EagerTimers: pending one-shot timers fire before anything else runs
	// ("time passes quickly"): their transitions are ordered first.
	EagerTimers bool
	// Fast: default schedule only, no Trace recorded: the first enabled
	// transition in canonical order is taken without computing the others
	// (same schedule as an empty Prefix; for deterministic single executions).
	Fast bool
}

// Run executes body as thread 0 under the scheduler following cfg.Prefix, then
// default choices, until body returns, a thread panics, or nothing is enabled.
func Run(cfg Config, body func()) *Sched {
	s := &Sched{prefix: cfg.Prefix, ack: make(chan struct{}), finished: make(chan struct{}),
		closed: map[uintptr]bool{}, exited: make(chan struct{}, 4096),
		MaxTicks: cfg.MaxTicks, EarlyTimers: cfg.EarlyTimers, MaxSteps: cfg.MaxSteps, Verbose: cfg.Verbose, onDeadlock: cfg.OnDeadlock, fast: cfg.Fast && len(cfg.Prefix) == 0 && len(cfg.Slow) == 0 && !cfg.EagerTimers, slow: cfg.Slow, slowFrom: cfg.SlowFrom, eagerTimers: cfg.EagerTimers}
	if s.MaxTicks == 0 {
		s.MaxTicks = 4
	}
	if s.MaxSteps == 0 {
		s.MaxSteps = 200000
	}
	if S != nil {
		panic("vsched: nested Run")
	}
	S = s
	t := s.newThread("main", body)
	s.cur = t
	t.op = opNone
	t.wake <- dRun
	<-s.finished
	s.killing = true
	for _, th := range s.threads {
		if !th.done {
			th.wake <- dKill
			<-s.exited
		}
	}
	S = nil
	return s
}

func (s *Sched) finish() { s.finOnce.Do(func() { close(s.finished) }) }

// Threads reports every thread's state (call from the running thread only).
func (s *Sched) Threads() []ThreadInfo {
	out := make([]ThreadInfo, len(s.threads))
	for i, t := range s.threads {
		out[i] = ThreadInfo{ID: t.id, Name: t.name, Done: t.done, Op: opNames[t.op], Blocked: t.blocked}
	}
	return out
}

// Current returns the active scheduler and nil when free-running.
func Current() *Sched { return S }

func (s *Sched) newThread(name string, f func()) *Thread {
	t := &Thread{id: len(s.threads), name: name, wake: make(chan directive, 1), op: opStart}
	s.threads = append(s.threads, t)
	go func() {
		d := <-t.wake
		defer func() {
			if s.killing {
				recover()
				t.done = true
				s.exited <- struct{}{}
				return
			}
			r := recover()
			t.done = true
			if r != nil {
				if s.Panic == nil {
					s.Panic = fmt.Sprintf("thread %d(%s) panicked: %v", t.id, t.name, r)
					buf := make([]byte, 16<<10)
					s.PanicStack = string(buf[:runtime.Stack(buf, false)])
				}
				s.finish()
				return
			}
			if t.id == 0 {
				s.finish()
				return
			}
			s.schedule(t, true)
		}()
		if d == dKill {
			return
		}
		f()
	}()
	return t
}

// Go spawns a controlled thread (free-running: a goroutine).
func Go(f func()) { GoN("go", f) }

// GoN spawns a controlled, named thread.
func GoN(name string, f func()) {
	s := S
	if s == nil || s.killing {
		if s == nil {
			go f()
		}
		return
	}
	s.newThread(name, f)
}

func cur() (*Sched, *Thread) {
	s := S
	if s == nil {
		return nil, nil
	}
	return s, s.cur
}

type trans struct {
	t       *Thread
	caseIdx int
	partner *Thread
	pcase   int
	tm      *timer
}

func (s *Sched) isClosed(c chanCase) bool {
	if s.closed[c.id] {
		return true
	}
	if c.rv.Len() > 0 {
		return false
	}
	// non-destructive probe: TryRecv on an empty channel succeeds only if closed
	// (no controlled thread is ever blocked in a real send).
	x, ok := c.rv.TryRecv()
	if !ok && x.IsValid() {
		s.closed[c.id] = true
		return true
	}
	if ok {
		panic("vsched: closed-probe consumed a value (uncontrolled sender on channel)")
	}
	return false
}

func (s *Sched) recvReady(c chanCase, self *Thread) (bool, *Thread, int) {
	if c.nilc {
		return false, nil, 0
	}
	if n := c.rv.Len(); n > 0 {
		// receiver FIFO: values are reserved for earlier-parked receivers
		ahead := 0
		for _, o := range s.threads {
			if o == self || o.done || o.op != opChan || !o.blocked || o.arrival > self.arrival {
				continue
			}
			for _, oc := range o.cases {
				if !oc.nilc && !oc.send && oc.id == c.id {
					ahead++
					break
				}
			}
		}
		return ahead < n, nil, 0
	}
	if c.buf == 0 && !s.closed[c.id] {
		if p, pc := s.findPartner(c.id, true, self); p != nil {
			return true, p, pc
		}
	}
	if s.isClosed(c) {
		return true, nil, 0
	}
	return false, nil, 0
}

func (s *Sched) sendReady(c chanCase, self *Thread) (bool, *Thread, int) {
	if c.nilc {
		return false, nil, 0
	}
	if s.closed[c.id] {
		return true, nil, 0 // panics like real Go
	}
	if c.buf > 0 {
		return c.rv.Len() < c.buf, nil, 0
	}
	if p, pc := s.findPartner(c.id, false, self); p != nil {
		return true, p, pc
	}
	return false, nil, 0
}

// findPartner finds the earliest-arrived parked thread with a complementary case on channel id.
func (s *Sched) findPartner(id uintptr, wantSender bool, self *Thread) (*Thread, int) {
	var best *Thread
	bi := 0
	for _, t := range s.threads {
		if t == self || t.done || t.op != opChan {
			continue
		}
		for i, c := range t.cases {
			if !c.nilc && c.id == id && c.send == wantSender && c.buf == 0 {
				if best == nil || t.arrival < best.arrival {
					best, bi = t, i
				}
				break
			}
		}
	}
	return best, bi
}

func (s *Sched) enabledOf(t *Thread, out []trans) []trans {
	n0 := len(out)
	switch t.op {
	case opStart, opResume:
		out = append(out, trans{t: t})
	case opLock:
		switch m := t.obj.(type) {
		case *Mutex:
			if !m.locked {
				out = append(out, trans{t: t})
			}
		case *RWMutex:
			if !m.w && m.r == 0 {
				out = append(out, trans{t: t})
			}
		}
	case opRLock:
		m := t.obj.(*RWMutex)
		if !m.w && !s.writerParked(m, t) {
			out = append(out, trans{t: t})
		}
	case opCondWait:
		if t.sig {
			out = append(out, trans{t: t})
		}
	case opWGWait:
		if t.obj.(*WaitGroup).n <= 0 {
			out = append(out, trans{t: t})
		}
	case opChan:
		any := false
		for i, c := range t.cases {
			var ok bool
			var p *Thread
			var pc int
			if c.send {
				ok, p, pc = s.sendReady(c, t)
			} else {
				ok, p, pc = s.recvReady(c, t)
			}
			if ok {
				any = true
				out = append(out, trans{t: t, caseIdx: i, partner: p, pcase: pc})
			}
		}
		if !any && t.hasDef {
			out = append(out, trans{t: t, caseIdx: -1})
		}
	}
	if len(out) == n0 && t.op != opQuiesce {
		t.blocked = true
	}
	return out
}

func (s *Sched) writerParked(m *RWMutex, self *Thread) bool {
	for _, o := range s.threads {
		if o != self && !o.done && o.op == opLock && o.obj == any(m) && o.blocked {
			return true
		}
	}
	return false
}

// schedule is called by the running thread t when it reaches an operation
// (its pending op is set) or when it exits (exiting=true).
func (s *Sched) schedule(t *Thread, exiting bool) {
	for {
		if s.Steps >= s.MaxSteps {
			s.StepLimit = true
			s.stop(t, exiting)
			return
		}
		en := s.enBuf[:0]
		curEnabled := false
		if !exiting {
			en = s.enabledOf(t, en)
			curEnabled = len(en) > 0
		}
		if !(s.fast && len(en) > 0) {
			for _, o := range s.threads {
				if o == t || o.done {
					continue
				}
				en = s.enabledOf(o, en)
				if s.fast && len(en) > 0 {
					break
				}
			}
		}
		if len(s.slow) > 0 && s.Steps >= s.slowFrom && len(en) > 1 {
			// stable partition: transitions of demoted threads last
			var a, b []trans
			for _, tr := range en {
				if tr.t != nil && s.slow[tr.t.id] {
					b = append(b, tr)
				} else {
					a = append(a, tr)
				}
			}
			if len(a) > 0 && len(b) > 0 {
				en = append(a, b...)
				if s.slow[t.id] {
					curEnabled = false // leaving a demoted thread is the default here, not a pre-emption
				}
			}
		}
		s.enBuf = en[:0]
		if s.eagerTimers && len(en) > 0 {
			var first []trans
			for _, tm := range s.timers {
				if !tm.dead && tm.period == 0 {
					first = append(first, trans{tm: tm})
				}
			}
			if len(first) > 0 {
				en = append(first, en...)
				curEnabled = false
			}
		} else if s.EarlyTimers && len(en) > 0 {
			for _, tm := range s.timers {
				if !tm.dead && tm.period == 0 {
					en = append(en, trans{tm: tm})
				}
			}
		}
		if len(en) == 0 {
			if s.fireTimer() {
				continue
			}
			// quiescent: release quiesce waiters (lowest thread id first)
			for _, o := range s.threads {
				if !o.done && o.op == opQuiesce {
					en = append(en, trans{t: o})
					break
				}
			}
			if len(en) == 0 {
				s.Deadlock = true
				if s.onDeadlock != nil {
					s.onDeadlock()
				}
				s.stop(t, exiting)
				return
			}
			s.ticks = 0
		}
		idx := 0
		if len(en) > 1 && !s.fast {
			if len(s.Trace) < len(s.prefix) {
				idx = s.prefix[len(s.Trace)]
				if idx >= len(en) || idx < 0 {
					s.Diverged = fmt.Sprintf("replay divergence at point %d: choice %d of %d", len(s.Trace), idx, len(en))
					s.stop(t, exiting)
					return
				}
			}
			pick := en[idx]
			p := Point{N: len(en), Choice: idx, CurEnabled: curEnabled}
			if pick.tm != nil {
				p.Thread = -2
			} else {
				p.Thread = pick.t.id
				p.Sig = uint32(pick.t.id)<<8 | uint32(pick.t.op)
			}
			s.Trace = append(s.Trace, p)
		}
		pick := en[idx]
		s.Steps++
		if pick.tm != nil {
			s.fire(pick.tm)
			continue
		}
		if s.Verbose {
			s.Log = append(s.Log, fmt.Sprintf("%d: T%d(%s) %s case=%d of %d enabled", s.Steps, pick.t.id, pick.t.name, opNames[pick.t.op], pick.caseIdx, len(en)))
		}
		pick.t.chosen = pick.caseIdx
		pick.t.passive = false
		pick.t.blocked = false
		if pick.partner != nil {
			p := pick.partner
			p.chosen = pick.pcase
			p.passive = true
			p.blocked = false
			p.op = opResume // after the passive completion it is simply runnable
			p.wake <- dPassive
		}
		pick.t.op = opNone
		s.cur = pick.t
		if pick.t == t {
			return
		}
		pick.t.wake <- dRun
		if exiting {
			return
		}
		s.park(t)
		return
	}
}

// stop ends the execution from inside schedule.
func (s *Sched) stop(t *Thread, exiting bool) {
	s.finish()
	if exiting {
		return
	}
	<-t.wake // wait to be killed
	runtime.Goexit()
}

func (s *Sched) park(t *Thread) {
	d := <-t.wake
	if d == dKill {
		runtime.Goexit()
	}
}

func (s *Sched) fire(tm *timer) {
	if tm.at > s.now {
		s.now = tm.at
	}
	select {
	case tm.ch <- time.Time{}:
	default:
	}
	if tm.period > 0 {
		tm.at += tm.period
	} else {
		tm.dead = true
	}
}

// fireTimer fires the earliest live timer at quiescence. Tickers are limited
// to MaxTicks consecutive idle firings (a firing is idle when fewer than 16
// transitions happened since the previous firing).
func (s *Sched) fireTimer() bool {
	var live []*timer
	for _, tm := range s.timers {
		if !tm.dead {
			live = append(live, tm)
		}
	}
	s.timers = live
	if len(live) == 0 {
		return false
	}
	sort.SliceStable(live, func(i, j int) bool {
		if live[i].at != live[j].at {
			return live[i].at < live[j].at
		}
		return live[i].seq < live[j].seq
	})
	for _, tm := range live {
		if tm.period > 0 {
			if s.Steps-s.lastTickStep > 16 {
				s.ticks = 0
			}
			if s.ticks >= s.MaxTicks {
				continue
			}
			s.ticks++
			s.lastTickStep = s.Steps
		}
		s.fire(tm)
		return true
	}
	return false
}

func (s *Sched) point(t *Thread, op opKind, obj any) {
	t.op = op
	t.obj = obj
	t.blocked = false
	s.arrival++
	t.arrival = s.arrival
	s.schedule(t, false)
}

// Quiesce parks the calling thread until no other thread is enabled and all
// timers have fired (tickers up to the idle horizon).
func Quiesce() {
	s, t := cur()
	if s == nil || s.killing {
		return
	}
	s.point(t, opQuiesce, nil)
}

// Mark records that set-up is over: explorers only deviate at points recorded
// after the mark (set-up code has nothing to race with).
func Mark() {
	if S != nil {
		S.MarkAt = len(S.Trace)
	}
}

// Yield is a pure scheduling point: the caller stays enabled, other threads may
// run first (models "this call takes time", e.g. a dial in flight).
func Yield() {
	s, t := cur()
	if s == nil || s.killing {
		return
	}
	s.point(t, opResume, nil)
}

// Choose is an environment decision with n alternatives; 0 is the default.
func Choose(n int) int {
	s, _ := cur()
	if s == nil || s.killing || n <= 1 {
		return 0
	}
	idx := 0
	if len(s.Trace) < len(s.prefix) {
		idx = s.prefix[len(s.Trace)]
		if idx >= n || idx < 0 {
			s.Diverged = fmt.Sprintf("replay divergence at env point %d: choice %d of %d", len(s.Trace), idx, n)
			idx = 0
		}
	}
	s.Trace = append(s.Trace, Point{N: n, Choice: idx, Thread: -1, Env: true, Sig: 0xffff0000 | uint32(n)})
	return idx
}

func mkCase(send bool, rv reflect.Value) chanCase {
	c := chanCase{send: send, rv: rv}
	if rv.IsNil() {
		c.nilc = true
		return c
	}
	c.id = rv.Pointer()
	c.buf = rv.Cap()
	return c
}

func (s *Sched) chanOp(t *Thread, cases []chanCase, hasDef bool) {
	if s.killing {
		runtime.Goexit()
	}
	t.cases = cases
	t.hasDef = hasDef
	for _, c := range cases {
		if !c.nilc {
			s.keep = append(s.keep, c.rv)
		}
	}
	s.point(t, opChan, nil)
}

func (s *Sched) afterPassive(t *Thread) {
	t.passive = false
	s.ack <- struct{}{}
	s.park(t)
	s.cur = t
}

func (s *Sched) waitPassive() { <-s.ack }

// Send is `ch <- v`.
func Send[T any](ch chan<- T, v T) {
	s, t := cur()
	if s == nil {
		ch <- v
		return
	}
	c := mkCase(true, reflect.ValueOf(ch))
	s.chanOp(t, []chanCase{c}, false)
	passive := t.passive
	rendezvous := !passive && c.buf == 0 && !c.nilc && !s.closed[c.id]
	ch <- v
	if passive {
		s.afterPassive(t)
	} else if rendezvous {
		s.waitPassive()
	}
}

// Recv is `<-ch`.
func Recv[T any](ch <-chan T) T {
	v, _ := Recv2(ch)
	return v
}

// Recv2 is `v, ok := <-ch`.
func Recv2[T any](ch <-chan T) (T, bool) {
	s, t := cur()
	if s == nil {
		v, ok := <-ch
		return v, ok
	}
	c := mkCase(false, reflect.ValueOf(ch))
	s.chanOp(t, []chanCase{c}, false)
	passive := t.passive
	hadPartner := !passive && c.buf == 0 && !c.nilc && !s.closed[c.id]
	v, ok := <-ch
	if passive {
		s.afterPassive(t)
	} else if hadPartner {
		s.waitPassive()
	}
	return v, ok
}

// Close is `close(ch)`.
func Close[T any](ch chan<- T) {
	s, _ := cur()
	if s != nil {
		rv := reflect.ValueOf(ch)
		s.closed[rv.Pointer()] = true
		s.keep = append(s.keep, rv)
	}
	close(ch)
}

// Sel is the outcome of one scheduled select.
type Sel struct {
	chosen  int
	t       *Thread
	s       *Sched
	passive bool
	rdv     bool
}

// Case describes one communication clause of a select.
type Case struct{ c chanCase }

func RecvCase[T any](ch <-chan T) Case { return Case{mkCase(false, reflect.ValueOf(ch))} }
func SendCase[T any](ch chan<- T) Case { return Case{mkCase(true, reflect.ValueOf(ch))} }

// Select is the scheduling point of a select statement; it decides the one case
// the real select that follows will take.
func Select(hasDefault bool, cases ...Case) *Sel {
	s, t := cur()
	if s == nil {
		return nil
	}
	cs := make([]chanCase, len(cases))
	for i := range cases {
		cs[i] = cases[i].c
	}
	s.chanOp(t, cs, hasDefault)
	sel := &Sel{chosen: t.chosen, t: t, s: s, passive: t.passive}
	if t.chosen >= 0 {
		c := cs[t.chosen]
		sel.rdv = !t.passive && c.buf == 0 && !s.closed[c.id]
	}
	return sel
}

// Done is called first thing in every clause body of a rewritten select.
func (sel *Sel) Done() {
	if sel == nil {
		return
	}
	if sel.passive {
		sel.passive = false
		sel.s.afterPassive(sel.t)
	} else if sel.rdv {
		sel.rdv = false
		sel.s.waitPassive()
	}
}

func PickR[T any](s *Sel, i int, ch <-chan T) <-chan T {
	if s == nil || s.chosen == i {
		return ch
	}
	return nil
}

func PickS[T any](s *Sel, i int, ch chan<- T) chan<- T {
	if s == nil || s.chosen == i {
		return ch
	}
	return nil
}

// ---- virtual time

type Ticker struct {
	C  <-chan time.Time
	tm *timer
	rt *time.Ticker
}

func (t *Ticker) Stop() {
	if t.rt != nil {
		t.rt.Stop()
		return
	}
	t.tm.dead = true
}

func (t *Ticker) Reset(d time.Duration) {
	if t.rt != nil {
		t.rt.Reset(d)
		return
	}
	if s := S; s != nil {
		t.tm.period = d
		t.tm.at = s.now + d
	}
}

func (s *Sched) addTimer(d, period time.Duration) *timer {
	tm := &timer{at: s.now + d, period: period, ch: make(chan time.Time, 1), seq: len(s.timers)}
	s.timers = append(s.timers, tm)
	return tm
}

func NewTicker(d time.Duration) *Ticker {
	s, _ := cur()
	if s == nil {
		rt := time.NewTicker(d)
		return &Ticker{C: rt.C, rt: rt}
	}
	tm := s.addTimer(d, d)
	return &Ticker{C: tm.ch, tm: tm}
}

type Timer struct {
	C  <-chan time.Time
	tm *timer
	rt *time.Timer
}

func NewTimer(d time.Duration) *Timer {
	s, _ := cur()
	if s == nil {
		rt := time.NewTimer(d)
		return &Timer{C: rt.C, rt: rt}
	}
	tm := s.addTimer(d, 0)
	return &Timer{C: tm.ch, tm: tm}
}

func (t *Timer) Stop() bool {
	if t.rt != nil {
		return t.rt.Stop()
	}
	was := !t.tm.dead
	t.tm.dead = true
	return was
}

func (t *Timer) Reset(d time.Duration) bool {
	if t.rt != nil {
		return t.rt.Reset(d)
	}
	was := !t.tm.dead
	if s := S; s != nil {
		t.tm.at = s.now + d
		if t.tm.dead {
			t.tm.dead = false
			s.timers = append(s.timers, t.tm)
		}
	}
	return was
}

func After(d time.Duration) <-chan time.Time {
	s, _ := cur()
	if s == nil {
		return time.After(d)
	}
	return s.addTimer(d, 0).ch
}

func Tick(d time.Duration) <-chan time.Time { return NewTicker(d).C }

// AfterFunc runs f in its own thread once the timer fires (never, if it is stopped first).
func AfterFunc(d time.Duration, f func()) *Timer {
	s, _ := cur()
	if s == nil {
		return &Timer{rt: time.AfterFunc(d, f)}
	}
	tm := s.addTimer(d, 0)
	GoN("afterfunc", func() {
		Recv[time.Time](tm.ch)
		f()
	})
	return &Timer{tm: tm}
}

func Sleep(d time.Duration) {
	if S == nil {
		time.Sleep(d)
		return
	}
	Recv(After(d))
}

// ---- sync shims (scheduler-aware; real primitives when free-running)

type Locker interface {
	Lock()
	Unlock()
}

type Mutex struct {
	real   sync.Mutex
	locked bool
}

func (m *Mutex) Lock() {
	s, t := cur()
	if s == nil {
		m.real.Lock()
		return
	}
	if s.killing {
		m.locked = true
		return
	}
	s.point(t, opLock, m)
	m.locked = true
}

func (m *Mutex) Unlock() {
	if S == nil {
		m.real.Unlock()
		return
	}
	m.locked = false
}

func (m *Mutex) TryLock() bool {
	if S == nil {
		return m.real.TryLock()
	}
	if m.locked {
		return false
	}
	m.locked = true
	return true
}

type RWMutex struct {
	real sync.RWMutex
	w    bool
	r    int
}

func (m *RWMutex) Lock() {
	s, t := cur()
	if s == nil {
		m.real.Lock()
		return
	}
	if s.killing {
		m.w = true
		return
	}
	s.point(t, opLock, m)
	m.w = true
}

func (m *RWMutex) Unlock() {
	if S == nil {
		m.real.Unlock()
		return
	}
	m.w = false
}

func (m *RWMutex) RLock() {
	s, t := cur()
	if s == nil {
		m.real.RLock()
		return
	}
	if s.killing {
		m.r++
		return
	}
	s.point(t, opRLock, m)
	m.r++
}

func (m *RWMutex) RUnlock() {
	if S == nil {
		m.real.RUnlock()
		return
	}
	m.r--
}

func (m *RWMutex) RLocker() Locker { return (*rlocker)(m) }

type rlocker RWMutex

func (r *rlocker) Lock()   { (*RWMutex)(r).RLock() }
func (r *rlocker) Unlock() { (*RWMutex)(r).RUnlock() }

type Cond struct {
	L       Locker
	once    sync.Once
	real    *sync.Cond
	waiters []*Thread
}

func NewCond(l Locker) *Cond { return &Cond{L: l} }

func (c *Cond) rc() *sync.Cond {
	c.once.Do(func() { c.real = sync.NewCond(c.L) })
	return c.real
}

func (c *Cond) Wait() {
	s, t := cur()
	if s == nil {
		c.rc().Wait()
		return
	}
	if s.killing {
		runtime.Goexit()
	}
	c.L.Unlock()
	t.sig = false
	c.waiters = append(c.waiters, t)
	s.point(t, opCondWait, c)
	c.L.Lock()
}

func (c *Cond) Signal() {
	if S == nil {
		c.rc().Signal()
		return
	}
	if len(c.waiters) > 0 {
		c.waiters[0].sig = true
		c.waiters = c.waiters[1:]
	}
}

func (c *Cond) Broadcast() {
	if S == nil {
		c.rc().Broadcast()
		return
	}
	for _, w := range c.waiters {
		w.sig = true
	}
	c.waiters = nil
}

type Once struct {
	real sync.Once
	done bool
	m    Mutex
}

func (o *Once) Do(f func()) {
	if S == nil {
		o.real.Do(f)
		return
	}
	if o.done {
		return
	}
	o.m.Lock()
	defer o.m.Unlock()
	if !o.done {
		defer func() { o.done = true }()
		f()
	}
}

type WaitGroup struct {
	real sync.WaitGroup
	n    int
}

func (w *WaitGroup) Add(d int) {
	if S == nil {
		w.real.Add(d)
		return
	}
	w.n += d
}

func (w *WaitGroup) Done() { w.Add(-1) }

func (w *WaitGroup) Wait() {
	s, t := cur()
	if s == nil {
		w.real.Wait()
		return
	}
	if s.killing {
		return
	}
	s.point(t, opWGWait, w)
}
