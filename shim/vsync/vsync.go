package vsync

import (
	"sync"

	"github.com/ipfs/go-graphsync/zzverif/vsched"
)

type Mutex = vsched.Mutex
type RWMutex = vsched.RWMutex
type Cond = vsched.Cond
type Once = vsched.Once
type WaitGroup = vsched.WaitGroup
type Pool = sync.Pool
type Map = sync.Map
type Locker = vsched.Locker

func NewCond(l Locker) *Cond { return vsched.NewCond(l) }
