package props

import (
	"encoding/json"
	"fmt"
	"github.com/ipld/go-ipld-prime/node/basicnode"
	"sort"
	"strings"

	"github.com/ipfs/go-graphsync"
	"github.com/ipfs/go-graphsync/dedupkey"
	gsimpl "github.com/ipfs/go-graphsync/impl"
	gsmsg "github.com/ipfs/go-graphsync/message"
	"github.com/ipfs/go-graphsync/zzverif/vsched"
	"github.com/ipld/go-ipld-prime"
	cidlink "github.com/ipld/go-ipld-prime/linking/cid"
	"github.com/libp2p/go-libp2p/core/peer"

	"verif/core"
	"verif/harness"
)

// C20: concurrent requests between two peers each retrieve completely
// (DESIGN 6 C20). Two real instances; several requests issued back to back over
// overlapping DAGs; differential oracle vs. each request run alone.

type c20Case struct {
	Pair            string `json:"pair"` // same | sub | diamond | sibling
	Sel             string `json:"selector"`
	WQ, WR          int    `json:"-"`
	Workers         [2]int `json:"workers"`    // requestor's outgoing / responder's incoming maximum
	Keys            string `json:"dedup_keys"` // none | same | different
	N               int    `json:"requests"`
	Gated           bool   `json:"event_level"`
	PauseFirst      bool   `json:"first_request_paused_by_block_hook,omitempty"`            // the first request pauses itself at its first block and is never resumed
	HoldFirst       bool   `json:"responders_first_send_stalls,omitempty"`                  // the responder\'s first message stalls until all responses are queued behind it (they travel batched)
	CancelFirst     bool   `json:"first_request_cancelled_by_its_caller,omitempty"`         // with HoldFirst: once the batched responses have arrived and the first request is stuck in its slow hook, its caller cancels it; the others go on
	RespExt         bool   `json:"responder_hook_sends_extension,omitempty"`                // the responder's request hook sends extension data, so a request's first response may carry no link metadata
	RespPauseCancel bool   `json:"responder_pauses_first_then_caller_cancels_it,omitempty"` // the responder pauses the first request after its third block; the first request is behind on the requestor (slow hook at its second block), the others are issued then and wait at their first block; the first request's caller cancels it, it drains, then the others go on
	Tight           bool   `json:"responder_allowance_two_blocks,omitempty"`                // with HoldFirst: the responder may hold two blocks in memory per peer, so the first response stops early behind the stalled send and the others overlap with it
}

func (c c20Case) String() string {
	p := ""
	if c.PauseFirst {
		p = "; the first request pauses itself at its first block"
	}
	if c.HoldFirst {
		p += "; the responder's first send stalls so that the responses are batched, and the first request's block hook is slow"
	}
	if c.Tight {
		p += "; the responder's memory allowance for the peer is two blocks"
	}
	if c.RespExt {
		p += "; the responder's request hook sends extension data"
	}
	if c.RespPauseCancel {
		p += "; the responder pauses the first request after three blocks, the requestor is behind on it, the other requests are issued and wait at their first block, the first request's caller cancels it and only then the others go on"
	}
	if c.CancelFirst {
		p += "; the first request is cancelled by its caller while it is behind"
	}
	return fmt.Sprintf("%d requests (%s) selector %s workers Q=%d R=%d dedup keys %s%s", c.N, c.Pair, c.Sel, c.Workers[0], c.Workers[1], c.Keys, p)
}

type c20Req struct {
	visits  string
	missing []string
	other   []string
	closed  bool
}

type c20Obs struct {
	reqs     []c20Req
	store    string
	panicked string
	events   int
	wire     []string
	dup      []string          // blocks transmitted twice for one request
	where    map[string]string // "<request>/<block>": where the block's bytes travelled relative to the request's first present entry for it
}

// c20World builds the DAG and the roots the requests ask for.
func c20World(pair string) (*harness.DAG, []int) {
	// block 0 -> 1,2 ; 1 -> 3 ; 2 -> 3 (diamond with a shared leaf); block 4: second root -> 1
	sh := harness.Shape{Name: "c20", Blocks: []harness.BlockSpec{
		{Edges: []harness.Edge{{To: 2}, {To: 3, Form: harness.Inline}}},
		{Edges: []harness.Edge{{To: 2, Form: harness.List}}},
		{Edges: []harness.Edge{{To: 4}}},
		{Edges: []harness.Edge{{To: 4, Form: harness.Nested}}},
		{},
	}}
	d := harness.Build(sh, "c20")
	switch pair {
	case "same":
		return d, []int{0, 0, 0}
	case "sub":
		return d, []int{0, 2, 4}
	case "diamond":
		return d, []int{0, 1, 3}
	default: // sibling roots sharing a sub-DAG
		return d, []int{1, 0, 2}
	}
}

func c20Run(cfg vsched.Config, cs c20Case, only int) (*c20Obs, *vsched.Sched) {
	o := &c20Obs{}
	d, roots := c20World(cs.Pair)
	sel := findSel(cs.Sel)
	s := vsched.Run(cfg, func() {
		f := harness.NewFixture(cs.Gated)
		qs, rs := harness.NewStore(), harness.NewStore()
		for i, l := range d.Links {
			rs.Put(l, d.Data[i])
		}
		q := f.AddNode(peer.ID("Q"), qs, gsimpl.MaxInProgressOutgoingRequests(uint64(cs.Workers[0])))
		ropts := []gsimpl.Option{gsimpl.MaxInProgressIncomingRequests(uint64(cs.Workers[1]))}
		if cs.Tight {
			// a two-block allowance: behind the stalled send the first response stops early, so the others
			// really overlap with it on the responder (cross-request de-duplication happens)
			two := 0
			for _, b := range d.Data {
				two = max(two, 2*len(b))
			}
			ropts = append(ropts, gsimpl.MaxMemoryPerPeerResponder(uint64(two)))
		}
		r := f.AddNode(peer.ID("R"), rs, ropts...)
		if cs.RespExt {
			r.GS.RegisterIncomingRequestHook(func(p peer.ID, rd graphsync.RequestData, ha graphsync.IncomingRequestHookActions) {
				ha.SendExtensionData(graphsync.ExtensionData{Name: "app/hello", Data: basicnode.NewString("hi")})
			})
		}
		if cs.PauseFirst && only < 0 {
			pausedOnce := false
			q.GS.RegisterIncomingBlockHook(func(p peer.ID, rd graphsync.ResponseData, b graphsync.BlockData, ha graphsync.IncomingBlockHookActions) {
				if rd.RequestID() == harness.MkID(70) && !pausedOnce {
					pausedOnce = true
					ha.PauseRequest()
				}
			})
		}
		gate := make(chan struct{})
		gate2 := make(chan struct{})
		if cs.RespPauseCancel && only < 0 {
			nout := 0
			r.GS.RegisterOutgoingBlockHook(func(p peer.ID, rd graphsync.RequestData, b graphsync.BlockData, ha graphsync.OutgoingBlockHookActions) {
				if rd.ID() == harness.MkID(70) {
					nout++
					if nout == 3 {
						ha.PauseResponse()
					}
				}
			})
			nblk := map[graphsync.RequestID]int{}
			q.GS.RegisterIncomingBlockHook(func(p peer.ID, rd graphsync.ResponseData, b graphsync.BlockData, ha graphsync.IncomingBlockHookActions) {
				nblk[rd.RequestID()]++
				if rd.RequestID() == harness.MkID(70) {
					if nblk[rd.RequestID()] == 2 {
						<-gate
					}
				} else if nblk[rd.RequestID()] == 1 {
					<-gate2
				}
			})
		}
		if cs.HoldFirst && only < 0 {
			// ... and the first request's block hook is slow from its second block on: it stalls until the
			// other requests had their chance (a slow consumer; the others must not depend on it)
			nblk := 0
			q.GS.RegisterIncomingBlockHook(func(p peer.ID, rd graphsync.ResponseData, b graphsync.BlockData, ha graphsync.IncomingBlockHookActions) {
				if rd.RequestID() == harness.MkID(70) {
					nblk++
					if nblk == 2 {
						<-gate
					}
				}
			})
		}
		if cs.HoldFirst {
			f.Net.SendFault = func(from, to peer.ID, k int, m gsmsg.GraphSyncMessage) harness.FaultAction {
				if from == r.ID && k == 0 {
					return harness.SendHold
				}
				return harness.SendOK
			}
		}
		vsched.Quiesce()
		vsched.Mark()
		var res []*harness.ReqResult
		for i := 0; i < cs.N; i++ {
			if only >= 0 && i != only {
				continue
			}
			var exts []graphsync.ExtensionData
			key := ""
			switch cs.Keys {
			case "same":
				key = "k"
			case "different":
				key = fmt.Sprintf("k%d", i)
			}
			if key != "" {
				n, _ := dedupkey.EncodeDedupKey(key)
				exts = append(exts, graphsync.ExtensionData{Name: graphsync.ExtensionDeDupByKey, Data: n})
			}
			res = append(res, q.Request(f, r.ID, ipld.Link(d.Links[roots[i]]), sel.Node, harness.MkID(byte(70+i)), exts...))
			if cs.RespPauseCancel && only < 0 && i == 0 {
				vsched.Quiesce()
				if cs.Gated {
					o.events += len(harness.RunEvents(f.Deliveries(q.ID, r.ID), 400))
				}
			}
		}
		vsched.Quiesce()
		if cs.Gated {
			o.events += len(harness.RunEvents(f.Deliveries(q.ID, r.ID), 400))
		}
		if cs.RespPauseCancel && only < 0 {
			res[0].Cancel()
			vsched.Quiesce()
			if cs.Gated {
				o.events += len(harness.RunEvents(f.Deliveries(q.ID, r.ID), 400))
			}
			close(gate)
			vsched.Quiesce()
			if cs.Gated {
				o.events += len(harness.RunEvents(f.Deliveries(q.ID, r.ID), 400))
			}
			close(gate2)
			vsched.Quiesce()
			if cs.Gated {
				o.events += len(harness.RunEvents(f.Deliveries(q.ID, r.ID), 400))
			}
		}
		if cs.HoldFirst {
			f.Net.ReleaseHeld()
			vsched.Quiesce()
			if cs.Gated {
				o.events += len(harness.RunEvents(f.Deliveries(q.ID, r.ID), 400))
			}
			if cs.CancelFirst && only < 0 {
				res[0].Cancel()
				vsched.Quiesce()
				if cs.Gated {
					o.events += len(harness.RunEvents(f.Deliveries(q.ID, r.ID), 400))
				}
			}
			close(gate)
			vsched.Quiesce()
			if cs.Gated {
				o.events += len(harness.RunEvents(f.Deliveries(q.ID, r.ID), 400))
			}
		}
		for _, rr := range res {
			x := c20Req{visits: harness.VisitsString(rr.Visits), closed: rr.Closed()}
			for _, e := range rr.ErrStrings(d) {
				if strings.HasPrefix(e, "missing:") {
					x.missing = append(x.missing, e)
				} else {
					x.other = append(x.other, e)
				}
			}
			sort.Strings(x.missing)
			o.reqs = append(o.reqs, x)
		}
		o.store = strings.Join(qs.Keys(), ",")
		sentFor := map[string]int{}
		for _, w := range f.Net.Wire {
			if w.From != r.ID {
				continue
			}
			inMsg := map[string]bool{}
			for _, b := range w.Msg.Blocks() {
				inMsg[b.Cid().KeyString()] = true
			}
			// attribute a block to a request only if that request alone lists it present in this message
			listed := map[string][]string{}
			for _, rsp := range w.Msg.Responses() {
				if md, ok := rsp.Metadata().(gsmsg.GraphSyncLinkMetadata); ok {
					seen := map[string]bool{}
					for _, e := range md.RawMetadata() {
						k := e.Link.KeyString()
						if e.Action == graphsync.LinkActionPresent && inMsg[k] && !seen[k] {
							seen[k] = true
							listed[k] = append(listed[k], harness.ShortID(rsp.RequestID()))
						}
					}
				}
			}
			for k, rs := range listed {
				if len(rs) == 1 {
					sentFor[rs[0]+"/"+k]++
					if sentFor[rs[0]+"/"+k] == 2 {
						o.dup = append(o.dup, rs[0])
					}
				}
			}
		}
		// where the bytes of a block listed present for a request travel, relative to the first such listing:
		// in the same message, in an earlier one (sent for another request), only in a later one, or never
		o.where = map[string]string{}
		var carriedAt []map[string]bool
		for _, w := range f.Net.Wire {
			if w.From != r.ID {
				continue
			}
			in := map[string]bool{}
			for _, b := range w.Msg.Blocks() {
				in[b.Cid().KeyString()] = true
			}
			carriedAt = append(carriedAt, in)
		}
		mi := 0
		for _, w := range f.Net.Wire {
			if w.From != r.ID {
				continue
			}
			for _, rsp := range w.Msg.Responses() {
				md, ok := rsp.Metadata().(gsmsg.GraphSyncLinkMetadata)
				if !ok {
					continue
				}
				for _, e := range md.RawMetadata() {
					k := e.Link.KeyString()
					id := harness.ShortID(rsp.RequestID()) + "/" + d.Name(cidlink.Link{Cid: e.Link})
					if _, seen := o.where[id]; seen || e.Action != graphsync.LinkActionPresent {
						continue
					}
					o.where[id] = "never"
					for j := len(carriedAt) - 1; j > mi; j-- {
						if carriedAt[j][k] {
							o.where[id] = "later"
						}
					}
					for j := 0; j < mi; j++ {
						if carriedAt[j][k] {
							o.where[id] = "earlier"
						}
					}
					if carriedAt[mi][k] {
						o.where[id] = "same"
					}
				}
			}
			mi++
		}
		for _, w := range f.Net.Wire {
			if w.From == r.ID {
				var parts []string
				for _, rsp := range w.Msg.Responses() {
					acts := ""
					if md, ok := rsp.Metadata().(gsmsg.GraphSyncLinkMetadata); ok {
						for _, e := range md.RawMetadata() {
							acts += string(e.Action[:1])
						}
					}
					parts = append(parts, fmt.Sprintf("%s:%s", harness.ShortID(rsp.RequestID()), acts))
				}
				o.wire = append(o.wire, fmt.Sprintf("[%s %dblk]", strings.Join(parts, " "), len(w.Msg.Blocks())))
			}
		}
		f.Cancel()
	})
	if s.Panic != nil {
		o.panicked = fmt.Sprint(s.Panic)
	}
	return o, s
}

var c20Solo = map[string]*c20Obs{}

func c20Judge(cs c20Case, o *c20Obs) *core.Violation {
	v := func(sig, what string) *core.Violation {
		return &core.Violation{Signature: sig, What: cs.String() + ": " + what, Replay: cs}
	}
	if o.panicked != "" {
		return v("panic", o.panicked)
	}
	if len(o.dup) > 0 {
		return v("block-transmitted-twice-within-a-request", fmt.Sprintf("the responder sent the same block twice for request(s) %v", o.dup))
	}
	union := map[string]bool{}
	for i := 0; i < cs.N; i++ {
		key := fmt.Sprintf("%s|%s|%d", cs.Pair, cs.Sel, i)
		solo, ok := c20Solo[key]
		if !ok {
			b := cs
			b.Gated = false
			solo, _ = c20Run(vsched.Config{Fast: true}, b, i)
			c20Solo[key] = solo
		}
		if solo.panicked != "" || len(solo.reqs) != 1 || !solo.reqs[0].closed {
			return nil
		}
		for _, k := range strings.Split(solo.store, ",") {
			union[k] = true
		}
		if (cs.PauseFirst || cs.CancelFirst || cs.RespPauseCancel) && i == 0 {
			continue // paused for good / cancelled: only the others are judged
		}
		got, want := o.reqs[i], solo.reqs[0]
		name := fmt.Sprintf("request %d of %d", i+1, cs.N)
		if !got.closed {
			return v("request-never-completes", fmt.Sprintf("%s did not terminate; alone it delivers [%s]", name, shorten(want.visits)))
		}
		if got.visits != want.visits || strings.Join(got.missing, ";") != strings.Join(want.missing, ";") {
			// cause: every block this request misses beyond its solo run was de-duplicated against another
			// request on the responder, and the requestor read it from its store before it was there:
			//  later   - the entry left in a message before the one carrying the block (responder-side order)
			//  earlier - the block came in an earlier message for a request that had not stored it yet
			kinds := map[string]bool{}
			for _, m := range got.missing {
				if !strings.Contains(";"+strings.Join(want.missing, ";")+";", ";"+m+";") {
					blk := strings.TrimPrefix(m[:strings.Index(m, "@")], "missing:")
					kinds[o.where[fmt.Sprintf("r%d/%s", 70+i, blk)]] = true
				}
			}
			if len(kinds) == 1 && kinds["later"] {
				return v("present-entry-sent-ahead-of-the-deduplicated-block", fmt.Sprintf("%s lost %v: the responder listed each as present without bytes in a message that left before the message carrying the block for another request (wire %v)", name, got.missing, o.wire))
			}
			if len(kinds) == 1 && kinds["earlier"] && cs.RespPauseCancel {
				// here the other request has drained everything it received before this one looked: not the read-before-stored order
				return v("blocks-received-for-a-cancelled-request-lost-to-the-others", fmt.Sprintf("%s lost %v: each was sent earlier for the first request, which was cancelled by its caller and had finished draining what it had received before this request looked for the block locally (wire %v)", name, got.missing, o.wire))
			}
			if len(kinds) == 1 && kinds["earlier"] {
				return v("deduplicated-block-read-before-the-other-request-stored-it", fmt.Sprintf("%s lost %v: each was sent earlier for another request, which had not verified and stored it when this request looked for it locally (wire %v)", name, got.missing, o.wire))
			}
		}
		if got.visits != want.visits {
			return v("delivered-nodes-differ-from-solo-run", fmt.Sprintf("%s delivered [%s], alone [%s]; errors %v", name, shorten(got.visits), shorten(want.visits), append(got.missing, got.other...)))
		}
		if strings.Join(got.missing, ";") != strings.Join(want.missing, ";") || strings.Join(got.other, ";") != strings.Join(want.other, ";") {
			return v("errors-differ-from-solo-run", fmt.Sprintf("%s errors %v, alone %v", name, append(got.missing, got.other...), append(want.missing, want.other...)))
		}
	}
	var uk []string
	for k := range union {
		if k != "" {
			uk = append(uk, k)
		}
	}
	sort.Strings(uk)
	if strings.Join(uk, ",") != o.store && !cs.PauseFirst && !cs.CancelFirst && !cs.RespPauseCancel {
		return v("stored-blocks-differ-from-solo-runs", fmt.Sprintf("the requestor stored %d blocks, the solo runs together %d", len(strings.Split(o.store, ",")), len(uk)))
	}
	return nil
}

func c20Cases(thorough bool) []c20Case {
	var out []c20Case
	sels := []string{"all-d10"}
	if thorough {
		sels = append(sels, "all-d2", "field-e0-then-all")
	}
	for _, pair := range []string{"same", "sub", "diamond", "sibling"} {
		for _, sn := range sels {
			for _, w := range [][2]int{{1, 1}, {2, 2}, {1, 2}, {2, 1}} {
				for _, keys := range []string{"none", "same", "different"} {
					for _, n := range []int{2, 3} {
						if n == 3 && !thorough && (keys == "different" || w[0] != w[1]) {
							continue
						}
						out = append(out, c20Case{Pair: pair, Sel: sn, Workers: w, Keys: keys, N: n})
						if w[0] == 2 && (thorough || w[1] == 2) {
							out = append(out, c20Case{Pair: pair, Sel: sn, Workers: w, Keys: keys, N: n, PauseFirst: true})
							out = append(out, c20Case{Pair: pair, Sel: sn, Workers: w, Keys: keys, N: n, HoldFirst: true})
							out = append(out, c20Case{Pair: pair, Sel: sn, Workers: w, Keys: keys, N: n, HoldFirst: true, Tight: true})
							if keys == "none" && (thorough || n == 2) {
								out = append(out, c20Case{Pair: pair, Sel: sn, Workers: w, Keys: keys, N: n, HoldFirst: true, RespExt: true})
							}
							if keys != "different" && (thorough || n == 2) {
								out = append(out, c20Case{Pair: pair, Sel: sn, Workers: w, Keys: keys, N: n, RespPauseCancel: true})
							}
							if keys != "different" && (thorough || n == 2) {
								out = append(out, c20Case{Pair: pair, Sel: sn, Workers: w, Keys: keys, N: n, HoldFirst: true, CancelFirst: true})
							}
						}
					}
				}
			}
		}
	}
	return out
}

func runC20(c *core.Ctx) {
	cases := c20Cases(c.Thorough())
	sb, eb := 1, 2
	if c.Thorough() {
		sb, eb = 2, 3
	}
	for i, cs := range cases {
		if !c.Mine(int64(i)) {
			continue
		}
		if c.Expired() {
			c.Res.Exhaustive = false
			c.Note("deadline after %d of %d cases", i, len(cases))
			return
		}
		// event level: all orders of message deliveries within the bound
		ev := cs
		ev.Gated = true
		ebb := eb
		if cs.N == 3 && !c.Thorough() {
			ebb = 1
		}
		c.Explore(core.ExploreOpts{MaxBound: ebb, Cost: core.Deviation, Label: ev, NoShard: true, MaxExecs: 20000,
			Filter: func(p vsched.Point) bool { return p.Env }}, func(cfg vsched.Config) core.Exec {
			o, s := c20Run(cfg, ev, -1)
			return core.Exec{Sched: s, Outcome: fmt.Sprintf("event-level %s keys=%s events=%d", cs.Pair, cs.Keys, o.events), Viol: c20Judge(ev, o)}
		})
		// schedule level on the auto network (two requests only: runs are long)
		if cs.N == 2 && (c.Thorough() || (cs.Workers[0] == cs.Workers[1] && (cs.Pair == "same" || cs.Pair == "diamond") && cs.Keys != "different")) {
			c.Explore(core.ExploreOpts{MaxBound: sb, Cost: core.Deviation, Label: cs, NoShard: true, MaxExecs: 20000}, func(cfg vsched.Config) core.Exec {
				o, s := c20Run(cfg, cs, -1)
				return core.Exec{Sched: s, Outcome: fmt.Sprintf("schedule-level %s keys=%s", cs.Pair, cs.Keys), Viol: c20Judge(cs, o)}
			})
		}
		// one slow thread: every thread of the default execution demoted in turn (auto network)
		c.ExploreSlow(cs, vsched.Config{}, []int{0}, func(cfg vsched.Config) core.Exec {
			o, s := c20Run(cfg, cs, -1)
			return core.Exec{Sched: s, Outcome: fmt.Sprintf("%s keys=%s", cs.Pair, cs.Keys), Viol: c20Judge(cs, o)}
		})
		if i%11 == 0 {
			c.Sample(cs.String())
		}
	}
}

func init() {
	core.Register(&core.Prop{ID: "C20", Level: "model_checking",
		Rule:        "2 or 3 requests issued back to back from one requestor to one responder over a 5-block DAG with a shared sub-DAG: {the same root three times, a root and its sub-DAGs, the two arms of a diamond, sibling roots} x selector x request-worker limits (1|2 on either side) x dedup keys {none, one shared key, a key per request}; event level: every order of message deliveries within the deviation bound (gated network); schedule level: every schedule within the deviation bound after set-up (auto network, two requests); a class is (level, pair kind, keys, number of events)",
		Assumptions: []string{"differential oracle: each request run alone on fresh instances (C02 ties solo runs to the reference traversal)", "stored blocks = union of the solo runs' stores"},
		Run:         runC20, QuickBudget: 300, ThoroughBudget: 2400,
		Replay: func(raw json.RawMessage) string {
			var w struct {
				Label  c20Case `json:"label"`
				Prefix []int   `json:"prefix"`
			}
			if err := json.Unmarshal(raw, &w); err != nil {
				return err.Error()
			}
			o, _ := c20Run(core.CfgFromReplay(raw), w.Label, -1)
			if v := c20Judge(w.Label, o); v != nil {
				return v.Signature + ": " + v.What + fmt.Sprintf(" (events=%d wire=%v)", o.events, o.wire)
			}
			var per []string
			for _, rq := range o.reqs {
				per = append(per, fmt.Sprintf("closed=%v missing=%v other=%v nodes=%d", rq.closed, rq.missing, rq.other, strings.Count(rq.visits, "|")+1))
			}
			return fmt.Sprintf("ok (events=%d wire=%v per-request=%v)", o.events, o.wire, per)
		}})
}
