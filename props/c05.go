package props

import (
	"encoding/json"
	"fmt"
	"strings"

	"github.com/ipfs/go-graphsync"
	"github.com/ipfs/go-graphsync/zzverif/vsched"

	"verif/core"
	"verif/harness"
)

// C05: every incoming request is eventually fully retired by the responder
// (DESIGN 6 C05). Responder world of rsp.go.

func c05Judge(cs rspCase, o *rspObs) *core.Violation {
	v := func(sig, what string) *core.Violation {
		return &core.Violation{Signature: sig, What: fmt.Sprintf("%s (events: %s): %s", cs, strings.Join(o.trace, ","), what), Replay: cs}
	}
	if o.panicked != "" {
		return v("panic", o.panicked)
	}
	for _, id := range o.ids {
		if !o.received[id] {
			continue
		}
		nc, nx, ne := len(o.completed[id]), o.cancelled[id], o.neterr[id]
		name := harness.ShortID(id)
		outcome := fmt.Sprintf("completed %v, cancelled %d, network-error %d; terminal statuses handed to the network %v, received by the requestor %v", o.completed[id], nx, ne, o.wireSent[id], o.wireTerm[id])
		switch {
		case nc == 0 && nx == 0 && ne == 0:
			return v("request-never-retired/no-outcome-reported", fmt.Sprintf("request %s reached no outcome: %s; state left: %q", name, outcome, o.stateLeft[id]))
		case nc > 1:
			return v("completed-reported-twice", fmt.Sprintf("request %s: %s", name, outcome))
		case nx > 1:
			return v("cancelled-reported-twice", fmt.Sprintf("request %s: %s", name, outcome))
		case nc == 1 && nx > 0:
			return v("both-completed-and-cancelled", fmt.Sprintf("request %s: %s", name, outcome))
		case nc == 1 && ne > 0:
			return v("both-completed-and-network-error", fmt.Sprintf("request %s: %s", name, outcome))
		case nx == 1 && ne > 0:
			return v("both-cancelled-and-network-error", fmt.Sprintf("request %s: %s", name, outcome))
		}
		if nc == 1 {
			got := o.completed[id][0]
			sent := o.wireTerm[id]
			if len(sent) != 1 || sent[0] != got {
				return v("completed-status-differs-from-status-sent", fmt.Sprintf("request %s: %s", name, outcome))
			}
		}
		if st, ok := o.stateLeft[id]; ok {
			return v("state-kept-after-outcome", fmt.Sprintf("request %s has its outcome (%s) but the responder still lists it as %s", name, outcome, st))
		}
	}
	if len(o.stateLeft) > 0 {
		return v("state-kept-for-unknown-request", fmt.Sprintf("%v", o.stateLeft))
	}
	if len(o.queueLeft) > 0 {
		return v("task-left-in-queue", fmt.Sprintf("every request has its outcome but the task queue still holds %v", o.queueLeft))
	}
	if len(o.protected) > 0 {
		return v("connection-protection-not-released", fmt.Sprintf("still protected: %v", o.protected))
	}
	return nil
}

func c05Outcome(o *rspObs) string {
	id := o.ids[0]
	return fmt.Sprintf("completed=%v cancelled=%d neterr=%d", o.completed[id], o.cancelled[id], o.neterr[id])
}

func c05Cases(thorough bool) []rspCase {
	var out []rspCase
	base := rspCase{Hook: "accept"}
	b, _ := rspRun(vsched.Config{Fast: true}, base)
	J := b.deliveries + 1
	kinds := []string{"p-cancel", "p-update", "r-pause", "r-unpause", "r-cancel", "r-update"}
	faults := [][]int{nil, {0}, {1}, {2}, {3}, {4}}
	for _, hook := range []string{"accept", "reject", "pause", "error", "accept-ext"} {
		for _, fs := range faults {
			add := func(acts ...rspAct) {
				c := rspCase{Hook: hook, Acts: acts, FailSend: fs}
				if fs != nil {
					c.Retries = 1
				}
				out = append(out, c)
				if fs != nil && thorough {
					c2 := c
					c2.Retries = 2
					c2.FailSend = []int{fs[0], fs[0] + 1}
					out = append(out, c2)
				}
			}
			add()
			for _, k := range kinds {
				for pos := 0; pos <= J; pos++ {
					add(rspAct{k, pos})
				}
			}
			// pairs
			pairs := [][2]string{{"r-pause", "r-unpause"}, {"r-pause", "r-cancel"}, {"r-pause", "p-cancel"}, {"p-update", "p-cancel"}, {"r-pause", "p-update"}, {"p-cancel", "p-cancel"}, {"r-cancel", "p-cancel"}}
			if fs != nil && !thorough {
				pairs = pairs[:3]
			}
			for _, pr := range pairs {
				for p1 := 0; p1 <= J; p1++ {
					for p2 := p1; p2 <= J; p2++ {
						if !thorough && (p2-p1) > 3 {
							continue
						}
						add(rspAct{pr[0], p1}, rspAct{pr[1], p2})
					}
				}
			}
		}
		// a stalled send: the traversal finishes behind it (completing-send), then it is released and succeeds or fails
		for k := 0; k <= 2; k++ {
			for _, fail := range []bool{false, true} {
				for pos := 1; pos <= J; pos++ {
					c := rspCase{Hook: hook, HoldSend: []int{k}, Acts: []rspAct{{"release", pos}}, Retries: 1}
					if fail {
						c.FailSend = []int{k}
					}
					out = append(out, c)
					for _, k2 := range []string{"p-cancel", "r-cancel", "p-update"} {
						c2 := c
						c2.Acts = []rspAct{{k2, max(pos-1, 0)}, {"release", pos}}
						out = append(out, c2)
					}
				}
			}
		}
		// a terminal message that is queued but not yet reported sent while further cancels / unpauses arrive
		if hook == "pause" || hook == "accept" {
			for _, hs := range []int{0, 1, 2} {
				for _, seq := range [][]string{{"r-cancel", "p-cancel"}, {"r-cancel", "r-unpause"}, {"r-cancel", "r-cancel"}, {"p-cancel", "r-cancel"}, {"r-pause", "r-cancel", "p-cancel"}, {"r-cancel", "p-update"}} {
					for a := 0; a <= 3; a++ {
						for b := a; b <= a+1; b++ {
							acts := []rspAct{}
							for i, k := range seq {
								pos := a
								if i == len(seq)-1 {
									pos = b
								}
								acts = append(acts, rspAct{k, pos})
							}
							acts = append(acts, rspAct{"release", b + 1})
							out = append(out, rspCase{Hook: hook, HoldSend: []int{hs}, Acts: acts, Retries: 1})
						}
					}
				}
			}
		}
		// connect failure (the queue shuts itself down)
		out = append(out, rspCase{Hook: hook, FailConn: []int{0}}, rspCase{Hook: hook, FailConn: []int{0}, Acts: []rspAct{{"p-cancel", 1}}})
	}
	return out
}

func runC05(c *core.Ctx) {
	cases := c05Cases(c.Thorough())
	for i, cs := range cases {
		if !c.Mine(int64(i)) {
			continue
		}
		if i%64 == 0 && c.Expired() {
			c.Res.Exhaustive = false
			c.Note("deadline after %d of %d event-level cases", i, len(cases))
			return
		}
		o, _ := rspRun(vsched.Config{Fast: true}, cs)
		c.Res.Evaluations++
		c.Res.Traces++
		c.Res.States++
		c.Res.Transitions += int64(len(o.trace))
		c.Class("event-level hook=" + cs.Hook + " " + c05Outcome(o))
		if i%997 == 0 {
			c.Sample(cs.String())
		}
		if v := c05Judge(cs, o); v != nil {
			c.Violate(v.Signature, v.What, v.Replay)
		}
	}
	// schedule level: auto network, actions by their own threads, every schedule within the bound
	bound := 1
	if c.Thorough() {
		bound = 2
	}
	var sc []rspCase
	for _, hook := range []string{"accept", "pause"} {
		for _, fs := range [][]int{nil, {0}, {1}, {2}, {3}} {
			for _, acts := range [][]rspAct{nil, {{K: "p-cancel"}}, {{K: "r-cancel"}}, {{K: "r-pause"}}, {{K: "p-update"}}} {
				if hook == "pause" && acts == nil {
					continue
				}
				for _, nb := range []int{1, 3} {
					c := rspCase{Hook: hook, Acts: acts, FailSend: fs, Sched: true, Blocks: nb}
					if fs != nil {
						c.Retries = 1
						if nb == 1 && fs[0] > 1 {
							continue
						}
					}
					sc = append(sc, c)
				}
			}
		}
	}
	for i, cs := range sc {
		if !c.Mine(int64(i)) {
			continue
		}
		if c.Expired() {
			c.Res.Exhaustive = false
			c.Note("deadline after %d of %d schedule-level cases", i, len(sc))
			return
		}
		cs := cs
		b := bound
		if cs.Blocks == 1 && (len(cs.Acts) == 0 || cs.Acts[0].K == "p-cancel") && len(cs.FailSend) == 0 {
			b = bound + 1 // short runs: one more deviation is affordable
		}
		// real time may pass at any moment: one-shot timers (the 100 ms grace wait after a failed send) may fire early
		c.Explore(core.ExploreOpts{MaxBound: b, Cost: core.Deviation, Label: cs, NoShard: true, MaxExecs: 60000, Cfg: vsched.Config{EarlyTimers: len(cs.FailSend) > 0}}, func(cfg vsched.Config) core.Exec {
			o, s := rspRun(cfg, cs)
			return core.Exec{Sched: s, Outcome: "schedule-level hook=" + cs.Hook + " " + c05Outcome(o), Viol: c05Judge(cs, o)}
		})
		c.ExploreSlow(cs, vsched.Config{}, []int{0, 100}, func(cfg vsched.Config) core.Exec {
			o, s := rspRun(cfg, cs)
			return core.Exec{Sched: s, Outcome: "hook=" + cs.Hook + " " + c05Outcome(o), Viol: c05Judge(cs, o)}
		})
		if len(cs.FailSend) > 0 {
			// a slow thread while the grace timer fires as early as it can
			c.ExploreSlowEarly(cs, func(cfg vsched.Config) core.Exec {
				o, s := rspRun(cfg, cs)
				return core.Exec{Sched: s, Outcome: "hook=" + cs.Hook + " " + c05Outcome(o), Viol: c05Judge(cs, o)}
			})
		}
	}
}

func init() {
	core.Register(&core.Prop{ID: "C05", Level: "model_checking",
		Rule:        "a real responder serves a scripted requestor (3-block chain). Event level (gated network, quiescence after every event): request-hook outcome {accept, reject, pause, error, accept+extension} x one action or a pair of actions from {requestor cancel, requestor update, responder pause/unpause/cancel/update API} placed after every number of delivery events x one failing send of the responder (each index 0..4, retries 1; thorough also two consecutive failures with retries 2) + connect failure; paused responses are unpaused at the end. Schedule level (auto network): hook {accept, pause} x action x failing send, the action issued by its own thread, every schedule within the deviation bound; a class is (level, hook, outcome reported)",
		Assumptions: []string{"eventually = at final quiescence after everything owed was delivered and every paused response was unpaused", "one outcome = exactly one of: completed once with the terminal status the requestor received; requestor-cancelled once; >=1 network-error notification"},
		Run:         runC05, QuickBudget: 300, ThoroughBudget: 2400,
		Replay: func(raw json.RawMessage) string {
			var w struct {
				Label  *rspCase `json:"label"`
				Prefix []int    `json:"prefix"`
			}
			var cs rspCase
			if json.Unmarshal(raw, &w) == nil && w.Label != nil && w.Label.Hook != "" {
				o, _ := rspRun(core.CfgFromReplay(raw), *w.Label)
				if v := c05Judge(*w.Label, o); v != nil {
					return v.Signature + ": " + v.What
				}
				return "ok"
			}
			if err := json.Unmarshal(raw, &cs); err != nil {
				return err.Error()
			}
			o, _ := rspRun(vsched.Config{Fast: true}, cs)
			if v := c05Judge(cs, o); v != nil {
				return v.Signature + ": " + v.What
			}
			return "ok"
		}})
}

var _ = graphsync.RequestCompletedFull
