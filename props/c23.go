package props

import (
	"encoding/json"
	"fmt"
	"strings"

	"github.com/ipfs/go-graphsync"
	"github.com/ipfs/go-graphsync/zzverif/vsched"

	"verif/core"
)

// C23: reported request state agrees with the work queue when quiescent
// (DESIGN 6 C23). Observed through PeerState(p).Diagnostics() at every
// quiescent point and Stats() at the end, in the responder world (rsp.go) and
// the requestor world (c04.go).

func c23JudgeRsp(cs rspCase, o *rspObs) *core.Violation {
	v := func(sig, what string) *core.Violation {
		return &core.Violation{Signature: sig + "/responder", What: fmt.Sprintf("%s (events: %s): %s", cs, strings.Join(o.trace, ","), what), Replay: map[string]any{"world": "responder", "case": cs}}
	}
	if o.panicked != "" {
		return v("panic", o.panicked)
	}
	if len(o.diag) > 0 {
		return v("state-disagrees-with-queue-at-quiescence", fmt.Sprintf("diagnostics at a quiescent point: %v", o.diag[:min(len(o.diag), 3)]))
	}
	if len(o.stateLeft) == 0 {
		if len(o.queueLeft) > 0 || !strings.HasPrefix(o.stats, "active=0 pending=0") {
			return v("queue-not-empty-after-all-requests-ended", fmt.Sprintf("no request is tracked any more but the task queue holds %v; stats %s", o.queueLeft, o.stats))
		}
		if !strings.Contains(o.stats, "allocated=0 pendingAlloc=0") {
			sig := "allocated-memory-after-all-requests-ended"
			ext := cs.Hook == "accept-ext"
			for _, a := range cs.Acts {
				ext = ext || a.K == "r-update"
			}
			if ext {
				sig += "/extension-bytes" // responses carrying extension data (hook or SendUpdate): C15's extension-bytes leak
			}
			return v(sig, "no request is tracked any more but stats report "+o.stats)
		}
	}
	return nil
}

func c23JudgeReq(cs reqCase, o *reqObs) *core.Violation {
	v := func(sig, what string) *core.Violation {
		return &core.Violation{Signature: sig + "/requestor", What: fmt.Sprintf("%s (events: %s): %s", cs, strings.Join(o.trace, ","), what), Replay: map[string]any{"world": "requestor", "case": cs}}
	}
	if o.panicked != "" {
		return v("panic", o.panicked)
	}
	if len(o.diag) > 0 {
		return v("state-disagrees-with-queue-at-quiescence", fmt.Sprintf("diagnostics at a quiescent point: %v", o.diag[:min(len(o.diag), 3)]))
	}
	if o.stateLeft == "" && (len(o.queueLeft) > 0 || o.stats != "active=0 pending=0") {
		return v("queue-not-empty-after-all-requests-ended", fmt.Sprintf("the request is no longer tracked but the task queue holds %v; stats %s", o.queueLeft, o.stats))
	}
	return nil
}

func runC23(c *core.Ctx) {
	rc := c05Cases(c.Thorough())
	// several requests with a small worker pool: queued requests are pending, running ones active
	for _, w := range []int{1, 2} {
		for _, pp := range []int{0, 1} {
			for _, acts := range [][]rspAct{nil, {{K: "p-cancel2", Pos: 1}}, {{K: "p-cancel", Pos: 1}}, {{K: "r-pause", Pos: 2}}, {{K: "p-cancel2", Pos: 0}, {K: "p-new2", Pos: 1}}, {{K: "p-new2", Pos: 2}, {K: "p-cancel", Pos: 3}}} {
				for _, hold := range [][]int{nil, {0}, {1}} {
					cs := rspCase{Hook: "accept", Reqs: 3, Workers: w, PerPeer: pp, Acts: acts, HoldSend: hold}
					if hold != nil {
						cs.Acts = append(append([]rspAct{}, acts...), rspAct{K: "release", Pos: 6})
					}
					rc = append(rc, cs)
				}
			}
		}
	}
	var idx int64
	for _, cs := range rc {
		idx++
		if !c.Mine(idx) {
			continue
		}
		if idx%64 == 0 && c.Expired() {
			c.Res.Exhaustive = false
			return
		}
		o, _ := rspRun(vsched.Config{Fast: true}, cs)
		c.Res.Evaluations++
		c.Res.Traces++
		c.Res.States += int64(len(o.trace)) // quiescent points observed
		c.Res.Transitions += int64(len(o.trace))
		c.Class(fmt.Sprintf("responder hook=%s maxActive=%d left=%d", cs.Hook, o.maxRunning, len(o.stateLeft)))
		if v := c23JudgeRsp(cs, o); v != nil {
			c.Violate(v.Signature, v.What, v.Replay)
		}
	}
	for _, cs := range c04Cases(c.Thorough()) {
		idx++
		if !c.Mine(idx) {
			continue
		}
		if idx%64 == 0 && c.Expired() {
			c.Res.Exhaustive = false
			return
		}
		o, _ := reqRun(vsched.Config{Fast: true}, cs)
		c.Res.Evaluations++
		c.Res.Traces++
		c.Res.States += int64(len(o.trace))
		c.Res.Transitions += int64(len(o.trace))
		c.Class(fmt.Sprintf("requestor closed=%v left=%q", o.closed, o.stateLeft))
		if idx%499 == 0 {
			c.Sample(cs.String())
		}
		if v := c23JudgeReq(cs, o); v != nil {
			c.Violate(v.Signature, v.What, v.Replay)
		}
	}
	// schedule level: the orders in which the managers learn of completion
	bound := 1
	if c.Thorough() {
		bound = 2
	}
	var sc []rspCase
	for _, nb := range []int{1, 3} {
		for _, acts := range [][]rspAct{nil, {{K: "p-cancel"}}, {{K: "r-pause"}}} {
			sc = append(sc, rspCase{Hook: "accept", Acts: acts, Sched: true, Blocks: nb})
		}
	}
	for _, cs := range sc {
		idx++
		if !c.Mine(idx) {
			continue
		}
		if c.Expired() {
			c.Res.Exhaustive = false
			return
		}
		cs := cs
		b := bound
		if cs.Blocks == 1 {
			b++
		}
		c.Explore(core.ExploreOpts{MaxBound: b, Cost: core.Deviation, Label: map[string]any{"world": "responder", "case": cs}, NoShard: true, MaxExecs: 60000}, func(cfg vsched.Config) core.Exec {
			o, s := rspRun(cfg, cs)
			return core.Exec{Sched: s, Outcome: fmt.Sprintf("schedule-level responder left=%d queue=%v", len(o.stateLeft), o.queueLeft), Viol: c23JudgeRsp(cs, o)}
		})
	}
	for _, local := range []int{0, 1} {
		for _, acts := range [][]rspAct{nil, {{K: "ctx-cancel"}}, {{K: "api-pause"}}} {
			idx++
			if !c.Mine(idx) {
				continue
			}
			cs := reqCase{Status: graphsync.RequestCompletedFull, TPos: 3 - local, Local: local, Acts: acts, Keep: true, Sched: true}
			c.Explore(core.ExploreOpts{MaxBound: bound, Cost: core.Deviation, Label: map[string]any{"world": "requestor", "case": cs}, NoShard: true, MaxExecs: 60000}, func(cfg vsched.Config) core.Exec {
				o, s := reqRun(cfg, cs)
				return core.Exec{Sched: s, Outcome: fmt.Sprintf("schedule-level requestor left=%q queue=%v", o.stateLeft, o.queueLeft), Viol: c23JudgeReq(cs, o)}
			})
		}
	}
}

func init() {
	core.Register(&core.Prop{ID: "C23", Level: "model_checking",
		Rule:        "the responder-world catalogue of C05 (hook outcome x actions x positions x failing/stalled sends) plus three requests on 1-2 workers with a per-peer limit, and the requestor-world catalogue of C04: after every event the instance runs to quiescence and PeerState(p).Diagnostics() of the direction under test must be empty; when no request is tracked any more Stats() must show nothing active, pending or allocated. Schedule level: 6 responder and 6 requestor cases, every schedule within the deviation bound, observed at final quiescence; a class is (world, max active tasks seen, requests still tracked)",
		Assumptions: []string{"quiescent = no enabled thread, timers fired up to the ticker horizon", "the statement's reading of agreement is the one Diagnostics() implements: queued=pending, running=active, paused/completing in neither"},
		Run:         runC23, QuickBudget: 300, ThoroughBudget: 2400,
		Replay: func(raw json.RawMessage) string {
			var w struct {
				Label *struct {
					World string          `json:"world"`
					Case  json.RawMessage `json:"case"`
				} `json:"label"`
				World  string          `json:"world"`
				Case   json.RawMessage `json:"case"`
				Prefix []int           `json:"prefix"`
			}
			if err := json.Unmarshal(raw, &w); err != nil {
				return err.Error()
			}
			world, cj, cfg := w.World, w.Case, vsched.Config{Fast: true}
			if w.Label != nil && w.Label.World != "" {
				world, cj, cfg = w.Label.World, w.Label.Case, vsched.Config{Prefix: w.Prefix}
			}
			var v *core.Violation
			if world == "responder" {
				var cs rspCase
				json.Unmarshal(cj, &cs)
				o, _ := rspRun(cfg, cs)
				v = c23JudgeRsp(cs, o)
			} else {
				var cs reqCase
				json.Unmarshal(cj, &cs)
				o, _ := reqRun(cfg, cs)
				v = c23JudgeReq(cs, o)
			}
			if v != nil {
				return v.Signature + ": " + v.What
			}
			return "ok"
		}})
}
