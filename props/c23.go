package props

import (
	"context"
	"encoding/json"
	"fmt"
	"github.com/ipfs/go-graphsync/dedupkey"
	"strings"

	blocks "github.com/ipfs/go-block-format"
	"github.com/ipfs/go-cid"
	"github.com/ipfs/go-graphsync"
	gsimpl "github.com/ipfs/go-graphsync/impl"
	gsmsg "github.com/ipfs/go-graphsync/message"
	"github.com/ipfs/go-graphsync/zzverif/vsched"
	cidlink "github.com/ipld/go-ipld-prime/linking/cid"
	"github.com/libp2p/go-libp2p/core/peer"

	"verif/core"
	"verif/harness"
)

// C23: reported request state agrees with the work queue when quiescent
// (DESIGN 6 C23). Observed through PeerState(p).Diagnostics() at every
// quiescent point and Stats() at the end, in the responder world (rsp.go) and
// the requestor world (c04.go).

func c23JudgeRsp(cs rspCase, o *rspObs) *core.Violation {
	v := func(sig, what string) *core.Violation {
		return &core.Violation{Signature: sig + "/responder", What: fmt.Sprintf("%s (events: %s): %s", cs, strings.Join(o.trace, ","), what), Replay: map[string]any{"world": "responder", "case": cs}}
	}
	if o.panicked != "" {
		return v("panic", o.panicked)
	}
	if len(o.diag) > 0 {
		return v("state-disagrees-with-queue-at-quiescence", fmt.Sprintf("diagnostics at a quiescent point: %v", o.diag[:min(len(o.diag), 3)]))
	}
	if len(o.stateLeft) == 0 {
		if len(o.queueLeft) > 0 || !strings.HasPrefix(o.stats, "active=0 pending=0") {
			return v("queue-not-empty-after-all-requests-ended", fmt.Sprintf("no request is tracked any more but the task queue holds %v; stats %s", o.queueLeft, o.stats))
		}
		if !strings.Contains(o.stats, "allocated=0 pendingAlloc=0") {
			sig := "allocated-memory-after-all-requests-ended"
			ext := cs.Hook == "accept-ext"
			for _, a := range cs.Acts {
				ext = ext || a.K == "r-update"
			}
			if ext {
				sig += "/extension-bytes" // responses carrying extension data (hook or SendUpdate): C15's extension-bytes leak
			}
			return v(sig, "no request is tracked any more but stats report "+o.stats)
		}
	}
	return nil
}

func c23JudgeReq(cs reqCase, o *reqObs) *core.Violation {
	v := func(sig, what string) *core.Violation {
		return &core.Violation{Signature: sig + "/requestor", What: fmt.Sprintf("%s (events: %s): %s", cs, strings.Join(o.trace, ","), what), Replay: map[string]any{"world": "requestor", "case": cs}}
	}
	if o.panicked != "" {
		return v("panic", o.panicked)
	}
	if len(o.diag) > 0 {
		return v("state-disagrees-with-queue-at-quiescence", fmt.Sprintf("diagnostics at a quiescent point: %v", o.diag[:min(len(o.diag), 3)]))
	}
	if o.stateLeft == "" && (len(o.queueLeft) > 0 || o.stats != "active=0 pending=0") {
		return v("queue-not-empty-after-all-requests-ended", fmt.Sprintf("the request is no longer tracked but the task queue holds %v; stats %s", o.queueLeft, o.stats))
	}
	return nil
}

// ---- requestor with several requests and one outgoing worker: queued requests
// that are cancelled, running ones that end, late arrivals

type c23Multi struct {
	Multi bool     `json:"requestor_multi"`
	Evs   []string `json:"events"`
}

// c23MaxRunning: the largest number of outgoing requests seen in the Running state at a quiescent point of the
// last c23MultiRun (the outgoing maximum is 1).
var c23MaxRunning int

func c23MultiRun(cs c23Multi) (diag []string, stats string, left map[string]string, notDone []string, panicked string) {
	c23MaxRunning = 0
	sh := harness.Shape{Name: "chain2", Blocks: []harness.BlockSpec{{Edges: []harness.Edge{{To: 1}}}, {}}}
	left = map[string]string{}
	s := vsched.Run(vsched.Config{Fast: true}, func() {
		f := harness.NewFixture(true)
		q := f.AddNode(peer.ID("Q"), harness.NewStore(), gsimpl.MaxInProgressOutgoingRequests(1))
		sp := f.AddScript(peer.ID("S"))
		gsq := q.GS.(*gsimpl.GraphSync)
		dags := map[string]*harness.DAG{}
		res := map[string]*harness.ReqResult{}
		cancelled := map[string]bool{}
		answered := map[string]bool{}
		ids := map[string]graphsync.RequestID{"A": harness.MkID(1), "B": harness.MkID(2), "C": harness.MkID(3)}
		issue := func(n string) {
			dags[n] = harness.Build(sh, "c23-"+n)
			res[n] = q.Request(f, sp.ID, dags[n].Root, harness.RecAll(10), ids[n])
		}
		answer := func(n string) {
			if res[n] == nil || answered[n] {
				return
			}
			asked := false
			for _, w := range sp.Inbox {
				for _, rq := range w.Msg.Requests() {
					if rq.ID() == ids[n] && rq.Type() == graphsync.RequestTypeNew {
						asked = true
					}
				}
			}
			if !asked {
				return // the request has not reached the responder yet (still queued on the requestor)
			}
			answered[n] = true
			d := dags[n]
			var md []gsmsg.GraphSyncLinkMetadatum
			bl := map[cid.Cid]blocks.Block{}
			for i, l := range d.Links {
				c := l.(cidlink.Link).Cid
				md = append(md, gsmsg.GraphSyncLinkMetadatum{Link: c, Action: graphsync.LinkActionPresent})
				b, _ := blocks.NewBlockWithCid(d.Data[i], c)
				bl[c] = b
			}
			f.Net.Node(q.ID).Inject(sp.ID, gsmsg.NewMessage(nil, map[graphsync.RequestID]gsmsg.GraphSyncResponse{ids[n]: gsmsg.NewResponse(ids[n], graphsync.RequestCompletedFull, md)}, bl))
		}
		observe := func() {
			ps := gsq.PeerState(sp.ID).OutgoingState
			for rid, ds := range ps.Diagnostics() {
				diag = append(diag, fmt.Sprintf("%s: %s", harness.ShortID(rid), strings.Join(ds, "; ")))
			}
			running := 0
			for _, st := range ps.RequestStates {
				if st == graphsync.Running {
					running++
				}
			}
			c23MaxRunning = max(c23MaxRunning, running, len(ps.TaskQueueState.Active))
		}
		step := func() {
			vsched.Quiesce()
			for f.Net.Node(sp.ID).Pending(q.ID) > 0 {
				f.Net.Node(sp.ID).DeliverNext(q.ID)
				vsched.Quiesce()
			}
			observe()
		}
		issue("A")
		issue("B")
		step()
		for _, e := range cs.Evs {
			switch e {
			case "cancelA-ctx", "cancelB-ctx", "cancelC-ctx":
				n := e[6:7]
				if res[n] != nil {
					cancelled[n] = true
					res[n].Cancel()
				}
			case "cancelB-api", "cancelA-api":
				n := e[6:7]
				cancelled[n] = true
				_ = q.GS.Cancel(context.Background(), ids[n])
			case "answerA", "answerB", "answerC":
				answer(e[6:7])
			case "issueC":
				if res["C"] == nil {
					issue("C")
				}
			}
			step()
		}
		// everything still alive is answered so that all requests end
		for round := 0; round < 4; round++ {
			for _, n := range []string{"A", "B", "C"} {
				if res[n] != nil && !cancelled[n] {
					answer(n)
					step()
				}
			}
		}
		for _, n := range []string{"A", "B", "C"} {
			if res[n] != nil && !cancelled[n] && (!res[n].Closed() || len(res[n].Errs) > 0 || len(res[n].Visits) == 0) {
				notDone = append(notDone, fmt.Sprintf("%s(closed=%v errs=%v nodes=%d)", n, res[n].Closed(), res[n].ErrStrings(dags[n]), len(res[n].Visits)))
			}
		}
		ps := gsq.PeerState(sp.ID).OutgoingState
		for rid, st := range ps.RequestStates {
			left[harness.ShortID(rid)] = st.String()
		}
		st := q.GS.Stats()
		stats = fmt.Sprintf("active=%d pending=%d", st.OutgoingRequests.Active, st.OutgoingRequests.Pending)
		f.Cancel()
	})
	if s.Panic != nil {
		panicked = fmt.Sprint(s.Panic)
	}
	return
}

func c23MultiJudge(cs c23Multi) *core.Violation {
	vs := c23MultiJudgeAll(cs)
	if len(vs) == 0 {
		return nil
	}
	return vs[0]
}

// c23MultiJudgeAll: the oracles are independent (a stale pending task must not hide a request that never runs)
func c23MultiJudgeAll(cs c23Multi) (out []*core.Violation) {
	diag, stats, left, notDone, panicked := c23MultiRun(cs)
	v := func(sig, what string) {
		out = append(out, &core.Violation{Signature: sig + "/requestor", What: fmt.Sprintf("one outgoing worker, requests A and B issued, then %v: %s", cs.Evs, what), Replay: cs})
	}
	if panicked != "" {
		v("panic", panicked)
		return
	}
	if len(notDone) > 0 {
		v("queued-request-never-completes", fmt.Sprintf("requests that were answered and not cancelled did not complete: %v (stats %s)", notDone, stats))
	}
	if c23MaxRunning > 1 {
		v("more-outgoing-requests-running-than-the-maximum", fmt.Sprintf("%d requests running at a quiescent point, the outgoing maximum is 1", c23MaxRunning))
	}
	stale := len(diag) > 0
	for _, d := range diag {
		stale = stale && strings.Contains(d, "in pending task queue but appears to have no tracked state")
	}
	if len(diag) > 0 {
		sig := "state-disagrees-with-queue-at-quiescence"
		if stale {
			// a queued request that is cancelled drops its state at once, its task stays pending until a worker pops it
			sig = "cancelled-queued-request-leaves-pending-task"
		}
		v(sig, fmt.Sprintf("diagnostics at a quiescent point: %v", diag[:min(len(diag), 3)]))
	}
	if len(left) == 0 && stats != "active=0 pending=0" && len(notDone) == 0 {
		v("queue-not-empty-after-all-requests-ended", "no request is tracked any more but stats report "+stats)
	}
	if len(left) > 0 && len(notDone) == 0 {
		v("request-still-tracked-after-it-ended", fmt.Sprintf("%v", left))
	}
	return
}

// ---- two requests of one peer over the SAME DAG (no key / a dedup key each / one shared key), the responder's
// first send stalled so that everything else accumulates in one pending message; once all requests have ended
// the statistics must report nothing active, nothing pending and no allocated memory
type c23Shared struct {
	Shared bool   `json:"responder_shared_blocks"`
	Keys   string `json:"dedup_keys"` // none | same | different
	W      int    `json:"incoming_workers"`
}

func c23SharedCases() []c23Shared {
	var out []c23Shared
	for _, k := range []string{"none", "same", "different"} {
		for _, w := range []int{1, 2} {
			out = append(out, c23Shared{Shared: true, Keys: k, W: w})
		}
	}
	return out
}

func c23SharedJudge(cs c23Shared) *core.Violation {
	var stats, panicked string
	var notDone []string
	sh := harness.Shape{Name: "chain3", Blocks: []harness.BlockSpec{{Edges: []harness.Edge{{To: 1}}}, {Edges: []harness.Edge{{To: 2}}}, {}}}
	s := vsched.Run(vsched.Config{Fast: true}, func() {
		f := harness.NewFixture(true)
		rs := harness.NewStore()
		d := harness.Build(sh, "c23-shared")
		for i, l := range d.Links {
			rs.Put(l, d.Data[i])
		}
		r := f.AddNode(peer.ID("R"), rs, gsimpl.MaxInProgressIncomingRequests(uint64(cs.W)))
		p1 := f.AddScript(peer.ID("P1"))
		f.Net.SendFault = func(from, to peer.ID, k int, m gsmsg.GraphSyncMessage) harness.FaultAction {
			if from == r.ID && k == 0 {
				return harness.SendHold
			}
			return harness.SendOK
		}
		step := func() {
			vsched.Quiesce()
			for f.Net.Node(r.ID).Pending(p1.ID) > 0 || f.Net.Node(p1.ID).Pending(r.ID) > 0 {
				f.Net.Node(r.ID).DeliverNext(p1.ID)
				f.Net.Node(p1.ID).DeliverNext(r.ID)
				vsched.Quiesce()
			}
		}
		ids := []graphsync.RequestID{harness.MkID(41), harness.MkID(42)}
		for i, id := range ids {
			var exts []graphsync.ExtensionData
			key := ""
			switch cs.Keys {
			case "same":
				key = "k"
			case "different":
				key = fmt.Sprintf("k%d", i)
			}
			if key != "" {
				n, _ := dedupkey.EncodeDedupKey(key)
				exts = append(exts, graphsync.ExtensionData{Name: graphsync.ExtensionDeDupByKey, Data: n})
			}
			p1.Say(r.ID, harness.ReqMsg(gsmsg.NewRequest(id, d.Root.(cidlink.Link).Cid, harness.RecAll(10), 1, exts...)))
			step()
		}
		f.Net.ReleaseHeld()
		step()
		step()
		for _, id := range ids {
			if len(r.Rec.Completed[id]) == 0 {
				notDone = append(notDone, harness.ShortID(id))
			}
		}
		st := r.GS.Stats()
		stats = fmt.Sprintf("active=%d pending=%d allocated=%d pending-allocations=%d", st.IncomingRequests.Active, st.IncomingRequests.Pending, st.OutgoingResponses.TotalAllocatedAllPeers, st.OutgoingResponses.TotalPendingAllocations)
		f.Cancel()
	})
	if s.Panic != nil {
		panicked = fmt.Sprint(s.Panic)
	}
	v := func(sig, what string) *core.Violation {
		return &core.Violation{Signature: sig + "/responder-shared-blocks", What: fmt.Sprintf("two requests for the same 3-block chain (dedup keys %s, %d incoming worker(s)), first send stalled: %s", cs.Keys, cs.W, what), Replay: cs}
	}
	switch {
	case panicked != "":
		return v("panic", panicked)
	case len(notDone) > 0:
		return v("request-never-completes", fmt.Sprintf("%v (stats %s)", notDone, stats))
	case stats != "active=0 pending=0 allocated=0 pending-allocations=0":
		return v("statistics-not-zero-after-all-requests-ended", stats)
	}
	return nil
}

func c23MultiCases() []c23Multi {
	alpha := []string{"cancelB-ctx", "cancelB-api", "cancelA-ctx", "cancelA-api", "answerA", "answerB", "issueC", "answerC", "cancelC-ctx"}
	var out []c23Multi
	var rec func(cur []string)
	rec = func(cur []string) {
		if len(cur) > 0 {
			out = append(out, c23Multi{Multi: true, Evs: append([]string{}, cur...)})
		}
		if len(cur) == 3 {
			return
		}
		for _, a := range alpha {
			dup := false
			for _, x := range cur {
				dup = dup || x == a
			}
			if !dup {
				rec(append(cur, a))
			}
		}
	}
	rec(nil)
	return out
}

// ---- responder with ONE worker: request A paused by the request hook, request B
// running but held at a stalled send under a one-block allowance; then a
// sequence of resumes / cancels / pauses, each observed at quiescence

type c23RspMulti struct {
	RspMulti bool     `json:"responder_multi"`
	Evs      []string `json:"events"`
	W        int      `json:"incoming_workers,omitempty"` // default 1
	M        int      `json:"per_peer_maximum,omitempty"` // 0: none
}

// limit monitor of the last c23RspMultiJudge run: the largest number of the peer's requests active at a
// quiescent point (task queue's own view)
var c23RspMaxActive int

func c23RspMultiJudge(cs c23RspMulti) *core.Violation {
	var diag []string
	var stats, panicked string
	left := map[string]string{}
	var notDone []string
	sh := harness.Shape{Name: "chain3", Blocks: []harness.BlockSpec{{Edges: []harness.Edge{{To: 1}}}, {Edges: []harness.Edge{{To: 2}}}, {}}}
	s := vsched.Run(vsched.Config{Fast: true}, func() {
		f := harness.NewFixture(true)
		rs := harness.NewStore()
		dA, dB, dC := harness.Build(sh, "c23-rA"), harness.Build(sh, "c23-rB"), harness.Build(sh, "c23-rC")
		one := 0
		for _, d := range []*harness.DAG{dA, dB, dC} {
			for i, l := range d.Links {
				rs.Put(l, d.Data[i])
				one = max(one, len(d.Data[i]))
			}
		}
		ropts := []gsimpl.Option{gsimpl.MaxInProgressIncomingRequests(uint64(max(cs.W, 1))), gsimpl.MaxMemoryPerPeerResponder(uint64(one))}
		if cs.M > 0 {
			ropts = append(ropts, gsimpl.MaxInProgressIncomingRequestsPerPeer(uint64(cs.M)))
		}
		r := f.AddNode(peer.ID("R"), rs, ropts...)
		p1 := f.AddScript(peer.ID("P1"))
		gsr := r.GS.(*gsimpl.GraphSync)
		c23RspMaxActive = 0
		idA, idB, idC := harness.MkID(31), harness.MkID(32), harness.MkID(33)
		issuedC := false
		held := true
		f.Net.SendFault = func(from, to peer.ID, k int, m gsmsg.GraphSyncMessage) harness.FaultAction {
			if from == r.ID && held && len(m.Blocks()) > 0 {
				return harness.SendHold
			}
			return harness.SendOK
		}
		r.GS.RegisterIncomingRequestHook(func(p peer.ID, rq graphsync.RequestData, ha graphsync.IncomingRequestHookActions) {
			ha.ValidateRequest()
			if rq.ID() == idA {
				ha.PauseResponse()
			}
		})
		cancelled := map[graphsync.RequestID]bool{}
		observe := func() {
			ps := gsr.PeerState(p1.ID).IncomingState
			for rid, ds := range ps.Diagnostics() {
				diag = append(diag, fmt.Sprintf("%s: %s", harness.ShortID(rid), strings.Join(ds, "; ")))
			}
			c23RspMaxActive = max(c23RspMaxActive, len(ps.TaskQueueState.Active))
		}
		step := func() {
			vsched.Quiesce()
			for f.Net.Node(r.ID).Pending(p1.ID) > 0 || f.Net.Node(p1.ID).Pending(r.ID) > 0 {
				f.Net.Node(r.ID).DeliverNext(p1.ID)
				f.Net.Node(p1.ID).DeliverNext(r.ID)
				vsched.Quiesce()
			}
			observe()
		}
		sel := harness.RecAll(10)
		p1.Say(r.ID, harness.ReqMsg(gsmsg.NewRequest(idA, dA.Root.(cidlink.Link).Cid, sel, 1)))
		step()
		issuedB := cs.M == 0
		if issuedB {
			p1.Say(r.ID, harness.ReqMsg(gsmsg.NewRequest(idB, dB.Root.(cidlink.Link).Cid, sel, 1)))
			step()
		}
		// (with a per-peer maximum only the paused request A exists at first: once resumed it is the one that
		// runs behind the stalled send, and request C arrives while it does)
		for _, e := range cs.Evs {
			switch e {
			case "unpauseA":
				_ = r.GS.Unpause(context.Background(), idA)
			case "unpauseA-ext":
				_ = r.GS.Unpause(context.Background(), idA, graphsync.ExtensionData{Name: "x/u", Data: nil})
			case "cancelA":
				cancelled[idA] = true
				p1.Say(r.ID, harness.ReqMsg(gsmsg.NewCancelRequest(idA)))
			case "r-cancelA":
				cancelled[idA] = true
				_ = r.GS.Cancel(context.Background(), idA)
			case "pauseB":
				if issuedB {
					_ = r.GS.Pause(context.Background(), idB)
				}
			case "cancelB":
				if issuedB {
					cancelled[idB] = true
					p1.Say(r.ID, harness.ReqMsg(gsmsg.NewCancelRequest(idB)))
				}
			case "release":
				held = false
				f.Net.ReleaseHeld()
			case "newC":
				// a third request of the same peer
				issuedC = true
				p1.Say(r.ID, harness.ReqMsg(gsmsg.NewRequest(idC, dC.Root.(cidlink.Link).Cid, harness.RecAll(10), 1)))
			}
			step()
		}
		held = false
		f.Net.ReleaseHeld()
		step()
		for round := 0; round < 4; round++ {
			for rid, st := range gsr.PeerState(p1.ID).IncomingState.RequestStates {
				if st == graphsync.Paused {
					_ = r.GS.Unpause(context.Background(), rid)
				}
			}
			step()
		}
		for _, id := range []graphsync.RequestID{idA, idB, idC} {
			if (id == idC && !issuedC) || (id == idB && !issuedB) {
				continue
			}
			if !cancelled[id] && len(r.Rec.Completed[id]) == 0 && r.Rec.NetErr[id] == 0 {
				notDone = append(notDone, harness.ShortID(id))
			}
		}
		for rid, st := range gsr.PeerState(p1.ID).IncomingState.RequestStates {
			left[harness.ShortID(rid)] = st.String()
		}
		st := r.GS.Stats()
		stats = fmt.Sprintf("active=%d pending=%d", st.IncomingRequests.Active, st.IncomingRequests.Pending)
		f.Cancel()
	})
	if s.Panic != nil {
		panicked = fmt.Sprint(s.Panic)
	}
	v := func(sig, what string) *core.Violation {
		return &core.Violation{Signature: sig + "/responder", What: fmt.Sprintf("%d incoming worker(s), per-peer maximum %d, A paused by the request hook, B running behind a stalled send, then %v: %s", max(cs.W, 1), cs.M, cs.Evs, what), Replay: cs}
	}
	switch {
	case panicked != "":
		return v("panic", panicked)
	case cs.M > 0 && c23RspMaxActive > cs.M:
		return v("per-peer-limit-exceeded", fmt.Sprintf("%d requests of one peer active at a quiescent point, the per-peer maximum is %d", c23RspMaxActive, cs.M))
	case c23RspMaxActive > max(cs.W, 1):
		return v("too-many-requests-active", fmt.Sprintf("%d requests active at a quiescent point, the maximum is %d", c23RspMaxActive, max(cs.W, 1)))
	case len(diag) > 0:
		return v("state-disagrees-with-queue-at-quiescence", fmt.Sprintf("diagnostics at a quiescent point: %v", diag[:min(len(diag), 3)]))
	case len(notDone) > 0:
		return v("request-never-completes", fmt.Sprintf("%v (stats %s, left %v)", notDone, stats, left))
	case len(left) == 0 && stats != "active=0 pending=0":
		return v("queue-not-empty-after-all-requests-ended", "stats "+stats)
	case len(left) > 0:
		return v("request-still-tracked-after-it-ended", fmt.Sprintf("%v", left))
	}
	return nil
}

func c23RspMultiCases() []c23RspMulti {
	alpha := []string{"unpauseA", "unpauseA-ext", "cancelA", "r-cancelA", "pauseB", "cancelB", "release", "newC"}
	var out []c23RspMulti
	var rec func(cur []string)
	rec = func(cur []string) {
		if len(cur) > 0 {
			out = append(out, c23RspMulti{RspMulti: true, Evs: append([]string{}, cur...)})
			// two workers with a per-peer maximum of one: the peer's second request waits for the first
			out = append(out, c23RspMulti{RspMulti: true, Evs: append([]string{}, cur...), W: 2, M: 1})
		}
		if len(cur) == 3 {
			return
		}
		for _, a := range alpha {
			dup := false
			for _, x := range cur {
				dup = dup || x == a
			}
			if !dup {
				rec(append(cur, a))
			}
		}
	}
	rec(nil)
	return out
}

func runC23(c *core.Ctx) {
	for i, cs := range c23RspMultiCases() {
		if !c.Mine(int64(i)) {
			continue
		}
		c.Res.Evaluations++
		c.Res.Traces++
		c.Res.States += int64(len(cs.Evs) + 3)
		c.Res.Transitions += int64(len(cs.Evs) + 3)
		c.Class("responder-multi")
		if v := c23RspMultiJudge(cs); v != nil {
			c.Violate(v.Signature, v.What, v.Replay)
		}
	}
	for i, cs := range c23SharedCases() {
		if !c.Mine(int64(i)) {
			continue
		}
		c.Res.Evaluations++
		c.Res.Traces++
		c.Class("responder-shared-blocks")
		if v := c23SharedJudge(cs); v != nil {
			c.Violate(v.Signature, v.What, v.Replay)
		}
	}
	for i, cs := range c23MultiCases() {
		if !c.Mine(int64(i)) {
			continue
		}
		c.Res.Evaluations++
		c.Res.Traces++
		c.Res.States += int64(len(cs.Evs) + 2)
		c.Res.Transitions += int64(len(cs.Evs) + 2)
		c.Class("requestor-multi")
		for _, v := range c23MultiJudgeAll(cs) {
			c.Violate(v.Signature, v.What, v.Replay)
		}
	}
	rc := c05Cases(c.Thorough())
	// several requests with a small worker pool: queued requests are pending, running ones active
	for _, w := range []int{1, 2} {
		for _, pp := range []int{0, 1} {
			for _, acts := range [][]rspAct{nil, {{K: "p-cancel2", Pos: 1}}, {{K: "p-cancel", Pos: 1}}, {{K: "r-pause", Pos: 2}}, {{K: "p-cancel2", Pos: 0}, {K: "p-new2", Pos: 1}}, {{K: "p-new2", Pos: 2}, {K: "p-cancel", Pos: 3}}} {
				for _, hold := range [][]int{nil, {0}, {1}} {
					cs := rspCase{Hook: "accept", Reqs: 3, Workers: w, PerPeer: pp, Acts: acts, HoldSend: hold}
					if hold != nil {
						cs.Acts = append(append([]rspAct{}, acts...), rspAct{K: "release", Pos: 6})
					}
					rc = append(rc, cs)
				}
			}
		}
	}
	var idx int64
	for _, cs := range rc {
		idx++
		if !c.Mine(idx) {
			continue
		}
		if idx%64 == 0 && c.Expired() {
			c.Res.Exhaustive = false
			return
		}
		o, _ := rspRun(vsched.Config{Fast: true}, cs)
		c.Res.Evaluations++
		c.Res.Traces++
		c.Res.States += int64(len(o.trace)) // quiescent points observed
		c.Res.Transitions += int64(len(o.trace))
		c.Class(fmt.Sprintf("responder hook=%s maxActive=%d left=%d", cs.Hook, o.maxRunning, len(o.stateLeft)))
		if v := c23JudgeRsp(cs, o); v != nil {
			c.Violate(v.Signature, v.What, v.Replay)
		}
	}
	for _, cs := range c04Cases(c.Thorough()) {
		idx++
		if !c.Mine(idx) {
			continue
		}
		if idx%64 == 0 && c.Expired() {
			c.Res.Exhaustive = false
			return
		}
		o, _ := reqRun(vsched.Config{Fast: true}, cs)
		c.Res.Evaluations++
		c.Res.Traces++
		c.Res.States += int64(len(o.trace))
		c.Res.Transitions += int64(len(o.trace))
		c.Class(fmt.Sprintf("requestor closed=%v left=%q", o.closed, o.stateLeft))
		if idx%499 == 0 {
			c.Sample(cs.String())
		}
		if v := c23JudgeReq(cs, o); v != nil {
			c.Violate(v.Signature, v.What, v.Replay)
		}
	}
	// schedule level: the orders in which the managers learn of completion
	bound := 1
	if c.Thorough() {
		bound = 2
	}
	var sc []rspCase
	for _, nb := range []int{1, 3} {
		for _, acts := range [][]rspAct{nil, {{K: "p-cancel"}}, {{K: "r-pause"}}} {
			sc = append(sc, rspCase{Hook: "accept", Acts: acts, Sched: true, Blocks: nb})
		}
	}
	for _, cs := range sc {
		idx++
		if !c.Mine(idx) {
			continue
		}
		if c.Expired() {
			c.Res.Exhaustive = false
			return
		}
		cs := cs
		b := bound
		if cs.Blocks == 1 {
			b++
		}
		c.Explore(core.ExploreOpts{MaxBound: b, Cost: core.Deviation, Label: map[string]any{"world": "responder", "case": cs}, NoShard: true, MaxExecs: 60000}, func(cfg vsched.Config) core.Exec {
			o, s := rspRun(cfg, cs)
			return core.Exec{Sched: s, Outcome: fmt.Sprintf("schedule-level responder left=%d queue=%v", len(o.stateLeft), o.queueLeft), Viol: c23JudgeRsp(cs, o)}
		})
		c.ExploreSlow(map[string]any{"world": "responder", "case": cs}, vsched.Config{}, []int{0, 100}, func(cfg vsched.Config) core.Exec {
			o, s := rspRun(cfg, cs)
			return core.Exec{Sched: s, Outcome: fmt.Sprintf("responder left=%d queue=%v", len(o.stateLeft), o.queueLeft), Viol: c23JudgeRsp(cs, o)}
		})
	}
	for _, local := range []int{0, 1} {
		for _, acts := range [][]rspAct{nil, {{K: "ctx-cancel"}}, {{K: "api-pause"}}} {
			idx++
			if !c.Mine(idx) {
				continue
			}
			cs := reqCase{Status: graphsync.RequestCompletedFull, TPos: 3 - local, Local: local, Acts: acts, Keep: true, Sched: true}
			c.Explore(core.ExploreOpts{MaxBound: bound, Cost: core.Deviation, Label: map[string]any{"world": "requestor", "case": cs}, NoShard: true, MaxExecs: 60000}, func(cfg vsched.Config) core.Exec {
				o, s := reqRun(cfg, cs)
				return core.Exec{Sched: s, Outcome: fmt.Sprintf("schedule-level requestor left=%q queue=%v", o.stateLeft, o.queueLeft), Viol: c23JudgeReq(cs, o)}
			})
		}
	}
}

func init() {
	core.Register(&core.Prop{ID: "C23", Level: "model_checking",
		Rule:        "the responder-world catalogue of C05 (hook outcome x actions x positions x failing/stalled sends) plus three requests on 1-2 workers with a per-peer limit, and the requestor-world catalogue of C04, plus a requestor with ONE outgoing worker holding requests A (running) and B (queued) under every sequence of <= 3 events from {cancel A/B/C by context or API, answer A/B/C, issue C}: after every event the instance runs to quiescence and PeerState(p).Diagnostics() of the direction under test must be empty; when no request is tracked any more Stats() must show nothing active, pending or allocated. Schedule level: 6 responder and 6 requestor cases, every schedule within the deviation bound, observed at final quiescence; a class is (world, max active tasks seen, requests still tracked)",
		Assumptions: []string{"quiescent = no enabled thread, timers fired up to the ticker horizon", "the statement's reading of agreement is the one Diagnostics() implements: queued=pending, running=active, paused/completing in neither"},
		Run:         runC23, QuickBudget: 300, ThoroughBudget: 2400,
		Replay: func(raw json.RawMessage) string {
			var w struct {
				Label *struct {
					World string          `json:"world"`
					Case  json.RawMessage `json:"case"`
				} `json:"label"`
				World  string          `json:"world"`
				Case   json.RawMessage `json:"case"`
				Prefix []int           `json:"prefix"`
			}
			var rm c23RspMulti
			if json.Unmarshal(raw, &rm) == nil && rm.RspMulti {
				if v := c23RspMultiJudge(rm); v != nil {
					return v.Signature + ": " + v.What
				}
				return fmt.Sprintf("ok (most requests of the peer active at a quiescent point: %d)", c23RspMaxActive)
			}
			var sc c23Shared
			if json.Unmarshal(raw, &sc) == nil && sc.Shared {
				if v := c23SharedJudge(sc); v != nil {
					return v.Signature + ": " + v.What
				}
				return "ok"
			}
			var mc c23Multi
			if json.Unmarshal(raw, &mc) == nil && mc.Multi {
				var lines []string
				for _, v := range c23MultiJudgeAll(mc) {
					lines = append(lines, v.Signature+": "+v.What)
				}
				if len(lines) > 0 {
					return strings.Join(lines, " || ")
				}
				return "ok"
			}
			if err := json.Unmarshal(raw, &w); err != nil {
				return err.Error()
			}
			world, cj, cfg := w.World, w.Case, vsched.Config{Fast: true}
			if w.Label != nil && w.Label.World != "" {
				world, cj, cfg = w.Label.World, w.Label.Case, core.CfgFromReplay(raw)
			}
			var v *core.Violation
			if world == "responder" {
				var cs rspCase
				json.Unmarshal(cj, &cs)
				o, _ := rspRun(cfg, cs)
				v = c23JudgeRsp(cs, o)
			} else {
				var cs reqCase
				json.Unmarshal(cj, &cs)
				o, _ := reqRun(cfg, cs)
				v = c23JudgeReq(cs, o)
			}
			if v != nil {
				return v.Signature + ": " + v.What
			}
			return "ok"
		}})
}
