package props

import (
	"context"
	"encoding/json"
	"fmt"
	"strings"

	blocks "github.com/ipfs/go-block-format"
	"github.com/ipfs/go-cid"
	"github.com/ipfs/go-graphsync"
	gsimpl "github.com/ipfs/go-graphsync/impl"
	gsmsg "github.com/ipfs/go-graphsync/message"
	"github.com/ipfs/go-graphsync/zzverif/vsched"
	cidlink "github.com/ipld/go-ipld-prime/linking/cid"
	"github.com/ipld/go-ipld-prime/node/basicnode"
	"github.com/libp2p/go-libp2p/core/peer"

	"verif/core"
	"verif/harness"
)

// C25: a stalled peer cannot block service to other peers (DESIGN 6 C25).

type c25Case struct {
	Side    string   `json:"side"`    // responder | requestor
	Stall   string   `json:"stall"`   // sends-block | sends-block+small-allowance
	Traffic []string `json:"traffic"` // what the stalled peer's exchange involves, in order
	Healthy string   `json:"healthy"` // what the healthy peer does: request | request-ext | request+update | request+pause
	Sched   bool     `json:"schedule_level,omitempty"`
}

func (c c25Case) String() string {
	return fmt.Sprintf("%s side; stalled peer: %s, traffic %v; healthy peer: %s", c.Side, c.Stall, c.Traffic, c.Healthy)
}

type c25Obs struct {
	healthyDone   bool
	healthyDetail string
	blocked       []string // threads blocked at the end (name: op)
	panicked      string
	loopStuck     bool // the response manager's loop does not answer a state query any more
}

func c25RunResponder(cfg vsched.Config, cs c25Case) (*c25Obs, *vsched.Sched) {
	o := &c25Obs{}
	sh := harness.Shape{Name: "chain3", Blocks: []harness.BlockSpec{{Edges: []harness.Edge{{To: 1}}}, {Edges: []harness.Edge{{To: 2, Form: harness.Inline}}}, {}}}
	cfg.OnDeadlock = nil
	s := vsched.Run(cfg, func() {
		f := harness.NewFixture(false)
		rs := harness.NewStore()
		var dags []*harness.DAG
		oneBlock := 0
		long := harness.Shape{Name: "chain5", Blocks: []harness.BlockSpec{{Edges: []harness.Edge{{To: 1}}}, {Edges: []harness.Edge{{To: 2}}}, {Edges: []harness.Edge{{To: 3}}}, {Edges: []harness.Edge{{To: 4}}}, {}}}
		for i := 0; i < 4; i++ {
			shp := sh
			if i < 2 {
				shp = long // the stalled peer's DAGs: more data than its allowance
			}
			d := harness.Build(shp, fmt.Sprintf("c25-%d", i))
			dags = append(dags, d)
			for k, l := range d.Links {
				rs.Put(l, d.Data[k])
				oneBlock = max(oneBlock, len(d.Data[k])+8)
			}
		}
		var opts []gsimpl.Option
		if strings.Contains(cs.Stall, "small-allowance") {
			// room for two blocks and some extension data: the stalled peer fills it, a healthy peer never does
			opts = append(opts, gsimpl.MaxMemoryPerPeerResponder(uint64(2*oneBlock+40)))
		}
		if strings.Contains(cs.Stall, "two-workers-one-per-peer") {
			// two response workers, at most one per peer: the stalled peer can never hold both
			opts = append(opts, gsimpl.MaxInProgressIncomingRequests(2), gsimpl.MaxInProgressIncomingRequestsPerPeer(1))
		}
		r := f.AddNode(peer.ID("R"), rs, opts...)
		p1 := f.AddScript(peer.ID("P1"))
		p2 := f.AddScript(peer.ID("P2"))
		f.Net.SendFault = func(from, to peer.ID, k int, m gsmsg.GraphSyncMessage) harness.FaultAction {
			if from == r.ID && to == p1.ID {
				return harness.SendStall
			}
			return harness.SendOK
		}
		ext := graphsync.ExtensionData{Name: "x/hook", Data: basicnode.NewString("extension payload from a hook")}
		r.GS.RegisterIncomingRequestHook(func(p peer.ID, rq graphsync.RequestData, ha graphsync.IncomingRequestHookActions) {
			ha.ValidateRequest()
			if _, has := rq.Extension("x/want-ext"); has {
				ha.SendExtensionData(ext)
			}
			if _, has := rq.Extension("x/pause"); has {
				ha.PauseResponse()
			}
		})
		r.GS.RegisterRequestUpdatedHook(func(p peer.ID, rq graphsync.RequestData, upd graphsync.RequestData, ha graphsync.RequestUpdatedHookActions) {
			ha.SendExtensionData(ext)
			if _, has := upd.Extension("x/unpause"); has {
				ha.UnpauseResponse()
			}
		})
		sel := harness.RecAll(10)
		id := func(i int) graphsync.RequestID { return harness.MkID(byte(40 + i)) }
		req := func(i int, exts ...graphsync.ExtensionData) gsmsg.GraphSyncMessage {
			return harness.ReqMsg(gsmsg.NewRequest(id(i), dags[i].Root.(cidlink.Link).Cid, sel, 1, exts...))
		}
		want := graphsync.ExtensionData{Name: "x/want-ext", Data: basicnode.NewInt(1)}
		pause := graphsync.ExtensionData{Name: "x/pause", Data: basicnode.NewInt(1)}
		vsched.Quiesce()
		vsched.Mark()
		// the stalled peer's traffic
		for _, t := range cs.Traffic {
			switch t {
			case "request":
				p1.Say(r.ID, req(0))
			case "request2":
				p1.Say(r.ID, req(1))
			case "request-ext":
				p1.Say(r.ID, req(0, want))
			case "request2-ext":
				p1.Say(r.ID, req(1, want))
			case "request2-paused":
				p1.Say(r.ID, req(1, pause))
			case "update2-unpause":
				p1.Say(r.ID, harness.ReqMsg(gsmsg.NewUpdateRequest(id(1), graphsync.ExtensionData{Name: "x/unpause", Data: basicnode.NewInt(1)})))
			case "request-paused":
				p1.Say(r.ID, req(0, pause))
			case "update":
				p1.Say(r.ID, harness.ReqMsg(gsmsg.NewUpdateRequest(id(0), graphsync.ExtensionData{Name: "x/u", Data: basicnode.NewInt(1)})))
			case "update-unpause":
				p1.Say(r.ID, harness.ReqMsg(gsmsg.NewUpdateRequest(id(0), graphsync.ExtensionData{Name: "x/unpause", Data: basicnode.NewInt(1)})))
			case "cancel":
				p1.Say(r.ID, harness.ReqMsg(gsmsg.NewCancelRequest(id(0))))
			case "api-pause":
				vsched.GoN("api-pause", func() { _ = r.GS.Pause(context.Background(), id(0)) })
			case "api-unpause":
				vsched.GoN("api-unpause", func() { _ = r.GS.Unpause(context.Background(), id(0), ext) })
			case "api-unpause-plain":
				vsched.GoN("api-unpause-plain", func() { _ = r.GS.Unpause(context.Background(), id(0)) })
			case "api-update":
				vsched.GoN("api-update", func() { _ = r.GS.SendUpdate(context.Background(), id(0), ext) })
			case "api-cancel":
				vsched.GoN("api-cancel", func() { _ = r.GS.Cancel(context.Background(), id(0)) })
			}
			if !cs.Sched {
				vsched.Quiesce()
			}
		}
		// the healthy peer
		hid := id(3)
		switch cs.Healthy {
		case "request":
			p2.Say(r.ID, req(3))
		case "request-ext":
			p2.Say(r.ID, req(3, want))
		case "request+update":
			p2.Say(r.ID, req(3))
			p2.Say(r.ID, harness.ReqMsg(gsmsg.NewUpdateRequest(hid, graphsync.ExtensionData{Name: "x/u", Data: basicnode.NewInt(1)})))
		case "request+pause":
			p2.Say(r.ID, req(3, pause))
			vsched.Quiesce()
			p2.Say(r.ID, harness.ReqMsg(gsmsg.NewUpdateRequest(hid, graphsync.ExtensionData{Name: "x/unpause", Data: basicnode.NewInt(1)})))
		}
		vsched.Quiesce()
		var sts []graphsync.ResponseStatusCode
		nb := 0
		for _, w := range p2.Inbox {
			for _, rsp := range w.Msg.Responses() {
				if rsp.RequestID() == hid {
					sts = append(sts, rsp.Status())
				}
			}
			nb += len(w.Msg.Blocks())
		}
		o.healthyDone = len(sts) > 0 && sts[len(sts)-1] == graphsync.RequestCompletedFull && nb == 3
		o.healthyDetail = fmt.Sprintf("healthy peer received statuses %v and %d blocks", sts, nb)
		// is the response manager's loop itself stuck? a state query goes through it
		answered := false
		vsched.GoN("probe", func() {
			_ = r.GS.(*gsimpl.GraphSync).PeerState(p2.ID)
			answered = true
		})
		vsched.Quiesce()
		o.loopStuck = !answered
		for _, t := range vsched.Current().Threads() {
			if !t.Done && t.Blocked && (strings.Contains(t.Name, "responsemanager") || strings.Contains(t.Name, "requestmanager")) {
				o.blocked = append(o.blocked, t.Name+":"+t.Op)
			}
		}
		f.Cancel()
	})
	if s.Panic != nil {
		o.panicked = fmt.Sprint(s.Panic)
	}
	return o, s
}

func c25RunRequestor(cfg vsched.Config, cs c25Case) (*c25Obs, *vsched.Sched) {
	o := &c25Obs{}
	sh := harness.Shape{Name: "chain3", Blocks: []harness.BlockSpec{{Edges: []harness.Edge{{To: 1}}}, {Edges: []harness.Edge{{To: 2, Form: harness.Inline}}}, {}}}
	s := vsched.Run(cfg, func() {
		f := harness.NewFixture(false)
		q := f.AddNode(peer.ID("Q"), harness.NewStore())
		s1 := f.AddScript(peer.ID("S1"))
		s2 := f.AddScript(peer.ID("S2"))
		d1, d2 := harness.Build(sh, "c25-q1"), harness.Build(sh, "c25-q2")
		f.Net.SendFault = func(from, to peer.ID, k int, m gsmsg.GraphSyncMessage) harness.FaultAction {
			if from == q.ID && to == s1.ID {
				return harness.SendStall
			}
			return harness.SendOK
		}
		// the healthy responder answers fully and at once
		s2.Script = func(from peer.ID, m gsmsg.GraphSyncMessage) {
			for _, rq := range m.Requests() {
				if rq.Type() != graphsync.RequestTypeNew {
					continue
				}
				var md []gsmsg.GraphSyncLinkMetadatum
				bl := map[cid.Cid]blocks.Block{}
				for i, l := range d2.Links {
					c := l.(cidlink.Link).Cid
					md = append(md, gsmsg.GraphSyncLinkMetadatum{Link: c, Action: graphsync.LinkActionPresent})
					b, _ := blocks.NewBlockWithCid(d2.Data[i], c)
					bl[c] = b
				}
				var exts []graphsync.ExtensionData
				if strings.Contains(cs.Healthy, "ext") {
					exts = append(exts, graphsync.ExtensionData{Name: "x/resp", Data: basicnode.NewInt(1)})
				}
				s2.Say(q.ID, gsmsg.NewMessage(nil, map[graphsync.RequestID]gsmsg.GraphSyncResponse{rq.ID(): gsmsg.NewResponse(rq.ID(), graphsync.RequestCompletedFull, md, exts...)}, bl))
			}
		}
		q.GS.RegisterIncomingResponseHook(func(p peer.ID, r graphsync.ResponseData, ha graphsync.IncomingResponseHookActions) {
			if _, has := r.Extension("x/resp"); has {
				ha.UpdateRequestWithExtensions(graphsync.ExtensionData{Name: "x/ack", Data: basicnode.NewInt(1)})
			}
		})
		sel := harness.RecAll(10)
		vsched.Quiesce()
		vsched.Mark()
		var stalled []*harness.ReqResult
		for i, t := range cs.Traffic {
			switch t {
			case "request":
				stalled = append(stalled, q.Request(f, s1.ID, d1.Root, sel, harness.MkID(byte(50+i))))
			case "ctx-cancel":
				if len(stalled) > 0 {
					stalled[0].Cancel()
				}
			case "api-cancel":
				if len(stalled) > 0 {
					rid := stalled[0].ID
					vsched.GoN("api-cancel", func() { _ = q.GS.Cancel(context.Background(), rid) })
				}
			case "api-pause":
				if len(stalled) > 0 {
					rid := stalled[0].ID
					vsched.GoN("api-pause", func() { _ = q.GS.Pause(context.Background(), rid) })
				}
			}
			if !cs.Sched {
				vsched.Quiesce()
			}
		}
		h := q.Request(f, s2.ID, d2.Root, sel, harness.MkID(60))
		vsched.Quiesce()
		o.healthyDone = h.Closed() && len(h.Errs) == 0 && len(h.Visits) == 7
		o.healthyDetail = fmt.Sprintf("request to the healthy responder: closed=%v errors=%v nodes=%d", h.Closed(), h.ErrStrings(d2), len(h.Visits))
		for _, t := range vsched.Current().Threads() {
			if !t.Done && t.Blocked && (strings.Contains(t.Name, "responsemanager") || strings.Contains(t.Name, "requestmanager")) {
				o.blocked = append(o.blocked, t.Name+":"+t.Op)
			}
		}
		f.Cancel()
	})
	if s.Panic != nil {
		o.panicked = fmt.Sprint(s.Panic)
	}
	return o, s
}

func c25Run(cfg vsched.Config, cs c25Case) (*c25Obs, *vsched.Sched) {
	if cs.Side == "requestor" {
		return c25RunRequestor(cfg, cs)
	}
	return c25RunResponder(cfg, cs)
}

func c25Judge(cs c25Case, o *c25Obs) *core.Violation {
	if o.panicked != "" {
		return &core.Violation{Signature: "panic", What: cs.String() + ": " + o.panicked, Replay: cs}
	}
	if !o.healthyDone {
		cause := "other"
		for _, t := range cs.Traffic {
			switch t {
			case "request-ext", "request2-ext", "update", "update-unpause", "update2-unpause", "api-unpause", "api-update":
				cause = "extension-data-queued-on-the-manager-loop"
			}
		}
		// ... and only when the response manager's own loop is what is stuck (it no longer answers a state query)
		if cause != "other" && cs.Side == "responder" && !o.loopStuck {
			cause = "other"
		}
		return &core.Violation{Signature: "healthy-peer-not-served/" + cs.Side + "/" + cause, What: fmt.Sprintf("%s: %s (response manager's loop stuck: %v)", cs, o.healthyDetail, o.loopStuck), Replay: cs}
	}
	return nil
}

func c25Cases() []c25Case {
	var out []c25Case
	traffics := [][]string{
		{"request"}, {"request", "request2"}, {"request-ext"}, {"request", "update"}, {"request", "cancel"}, {"request", "cancel", "cancel"},
		{"request-paused", "update-unpause"}, {"request", "api-pause"}, {"request", "api-pause", "api-unpause"}, {"request", "api-update"}, {"request", "api-cancel"},
		{"request", "update", "cancel"}, {"request-ext", "cancel"}, {"request", "request2", "cancel"},
		{"request", "request2-ext"}, {"request", "request2-paused", "update2-unpause"}, {"request", "request2-paused", "cancel"},
	}
	for _, stall := range []string{"sends-block", "sends-block+small-allowance"} {
		for _, tr := range traffics {
			for _, h := range []string{"request", "request-ext", "request+update", "request+pause"} {
				out = append(out, c25Case{Side: "responder", Stall: stall, Traffic: tr, Healthy: h})
			}
		}
	}
	// two workers, one per peer: whatever the stalled peer does, one worker stays free for the others
	for _, tr := range [][]string{{"request", "request2"}, {"request-paused", "update-unpause", "request2"}, {"request-paused", "request2", "update-unpause"}, {"request-paused", "api-unpause-plain", "request2"}, {"request", "api-pause", "api-unpause", "request2"}, {"request", "request2-paused", "update2-unpause"}} {
		for _, h := range []string{"request", "request+pause"} {
			out = append(out, c25Case{Side: "responder", Stall: "sends-block+small-allowance+two-workers-one-per-peer", Traffic: tr, Healthy: h})
		}
	}
	for _, tr := range [][]string{{"request"}, {"request", "request"}, {"request", "ctx-cancel"}, {"request", "api-cancel"}, {"request", "api-pause"}} {
		for _, h := range []string{"request", "request-ext"} {
			out = append(out, c25Case{Side: "requestor", Stall: "sends-block", Traffic: tr, Healthy: h})
		}
	}
	return out
}

func runC25(c *core.Ctx) {
	cases := c25Cases()
	for i, cs := range cases {
		if !c.Mine(int64(i)) {
			continue
		}
		o, s := c25Run(vsched.Config{Fast: true}, cs)
		c.Res.Evaluations++
		c.Res.Traces++
		c.Res.States++
		c.Res.Transitions += int64(s.Steps)
		c.Class(fmt.Sprintf("%s %s healthy-served=%v", cs.Side, cs.Stall, o.healthyDone))
		if i%13 == 0 {
			c.Sample(cs.String())
		}
		if v := c25Judge(cs, o); v != nil {
			c.Violate(v.Signature, v.What, v.Replay)
		}
	}
	// schedule level for a subset: the stalled peer's traffic and the healthy peer's request race
	bound := 1
	var sc []c25Case
	for _, tr := range [][]string{{"request", "cancel", "cancel"}, {"request", "api-cancel"}, {"request", "request2"}, {"request", "cancel"}} {
		sc = append(sc, c25Case{Side: "responder", Stall: "sends-block+small-allowance", Traffic: tr, Healthy: "request", Sched: true})
	}
	sc = append(sc, c25Case{Side: "requestor", Stall: "sends-block", Traffic: []string{"request", "ctx-cancel"}, Healthy: "request", Sched: true})
	if c.Thorough() {
		bound = 2
	}
	for i, cs := range sc {
		if !c.Mine(int64(i + len(cases))) {
			continue
		}
		if c.Expired() {
			c.Res.Exhaustive = false
			return
		}
		cs := cs
		c.Explore(core.ExploreOpts{MaxBound: bound, Cost: core.Deviation, Label: cs, NoShard: true, MaxExecs: 60000}, func(cfg vsched.Config) core.Exec {
			o, s := c25Run(cfg, cs)
			return core.Exec{Sched: s, Outcome: fmt.Sprintf("schedule-level %s healthy-served=%v", cs.Side, o.healthyDone), Viol: c25Judge(cs, o)}
		})
		c.ExploreSlow(cs, vsched.Config{}, []int{0}, func(cfg vsched.Config) core.Exec {
			o, s := c25Run(cfg, cs)
			return core.Exec{Sched: s, Outcome: fmt.Sprintf("%s healthy-served=%v", cs.Side, o.healthyDone), Viol: c25Judge(cs, o)}
		})
	}
}

func init() {
	core.Register(&core.Prop{ID: "C25", Level: "model_checking",
		Rule:        "responder side: peer P1's link never accepts a send (optionally with a small per-peer allowance, optionally with two response workers and a per-peer maximum of one) while P1's exchange involves 14 traffic patterns (1-2 requests, a request whose hook queues extension data, requestor update / cancel / double cancel, hook-paused request unpaused by an update, responder pause / unpause / update / cancel API) and healthy peer P2 then sends {request, request with hook extension, request+update, paused request+unpausing update}; requestor side: the link to responder S1 never accepts a send while requests to S1 are issued / cancelled / paused and a request to healthy S2 follows. Oracle at final quiescence: the healthy exchange completed in full. Schedule level: 5 cases, every schedule within the deviation bound; a class is (side, stall kind, healthy served)",
		Assumptions: []string{"a stalled send never returns (blocks indefinitely = a thread that is never enabled)", "the total memory allowance is left at its default, only the per-peer allowance is reduced"},
		Run:         runC25, QuickBudget: 300, ThoroughBudget: 1800,
		Replay: func(raw json.RawMessage) string {
			var w struct {
				Label  *c25Case `json:"label"`
				Prefix []int    `json:"prefix"`
			}
			var cs c25Case
			cfg := vsched.Config{Fast: true}
			if json.Unmarshal(raw, &w) == nil && w.Label != nil && w.Label.Side != "" {
				cs, cfg = *w.Label, core.CfgFromReplay(raw)
			} else if err := json.Unmarshal(raw, &cs); err != nil {
				return err.Error()
			}
			o, _ := c25Run(cfg, cs)
			if v := c25Judge(cs, o); v != nil {
				return v.Signature + ": " + v.What
			}
			return "ok: " + o.healthyDetail
		}})
}
