package props

import (
	"encoding/json"
	"fmt"
	"regexp"
	"sort"
	"strconv"
	"strings"

	"github.com/ipfs/go-graphsync/allocator"
	"github.com/libp2p/go-libp2p/core/peer"

	"verif/core"
)

// C13 / C14: explicit-state BFS over allocate/release/release-peer histories
// on the real allocator.Allocator, compared step by step with a reference
// model that transcribes the two statements (DESIGN 6, C13/C14).

type allocOp struct {
	Kind string `json:"k"` // "a" allocate, "r" release, "p" release-peer
	Peer int    `json:"p"`
	N    uint64 `json:"n,omitempty"`
}

func (o allocOp) String() string {
	switch o.Kind {
	case "a":
		return fmt.Sprintf("alloc(%c,%d)", 'A'+o.Peer, o.N)
	case "r":
		return fmt.Sprintf("release(%c,%d)", 'A'+o.Peer, o.N)
	}
	return fmt.Sprintf("releasePeer(%c)", 'A'+o.Peer)
}

type allocCfg struct {
	Total, PerPeer uint64
	Peers          int
	Amounts        []uint64
}

// ---- reference model

type mWait struct {
	id  int // index of the allocation in issue order
	n   uint64
	seq int
}

type allocModel struct {
	total, perPeer uint64
	granted        []uint64
	waiting        [][]mWait
	seq            int
	status         []int // per issued allocation: 0 waiting, 1 granted, 2 failed
}

func newAllocModel(c allocCfg) *allocModel {
	return &allocModel{total: c.Total, perPeer: c.PerPeer, granted: make([]uint64, c.Peers), waiting: make([][]mWait, c.Peers)}
}

func (m *allocModel) sum() uint64 {
	var s uint64
	for _, g := range m.granted {
		s += g
	}
	return s
}

func (m *allocModel) process() {
	for {
		best := -1
		for p := range m.waiting {
			if len(m.waiting[p]) == 0 {
				continue
			}
			h := m.waiting[p][0]
			if m.granted[p]+h.n > m.perPeer {
				continue
			}
			if best < 0 || h.seq < m.waiting[best][0].seq {
				best = p
			}
		}
		if best < 0 {
			return
		}
		h := m.waiting[best][0]
		if m.sum()+h.n > m.total {
			return
		}
		m.granted[best] += h.n
		m.waiting[best] = m.waiting[best][1:]
		m.status[h.id] = 1
	}
}

func (m *allocModel) apply(o allocOp) {
	switch o.Kind {
	case "a":
		id := len(m.status)
		if len(m.waiting[o.Peer]) == 0 && m.sum()+o.N <= m.total && m.granted[o.Peer]+o.N <= m.perPeer {
			m.granted[o.Peer] += o.N
			m.status = append(m.status, 1)
			return
		}
		m.status = append(m.status, 0)
		m.waiting[o.Peer] = append(m.waiting[o.Peer], mWait{id, o.N, m.seq})
		m.seq++
	case "r":
		n := o.N
		if n > m.granted[o.Peer] {
			n = m.granted[o.Peer]
		}
		m.granted[o.Peer] -= n
		m.process()
	case "p":
		for _, w := range m.waiting[o.Peer] {
			m.status[w.id] = 2
		}
		m.waiting[o.Peer] = nil
		m.granted[o.Peer] = 0
		m.process()
	}
}

// ---- real object driver

type allocReal struct {
	a        *allocator.Allocator
	chans    []<-chan error
	status   []int
	panicked string // the allocator panicked in an earlier call (the instance is not used any further)
}

var allocPeers = []peer.ID{"A", "B", "C", "D"}

func (r *allocReal) apply(o allocOp) {
	if r.panicked != "" {
		return
	}
	defer func() {
		if x := recover(); x != nil {
			r.panicked = fmt.Sprintf("%v in %s", x, o)
		}
	}()
	switch o.Kind {
	case "a":
		r.chans = append(r.chans, r.a.AllocateBlockMemory(allocPeers[o.Peer], o.N))
		r.status = append(r.status, 0)
	case "r":
		r.a.ReleaseBlockMemory(allocPeers[o.Peer], o.N)
	case "p":
		r.a.ReleasePeerMemory(allocPeers[o.Peer])
	}
	for i, ch := range r.chans {
		if r.status[i] != 0 {
			// a resolved channel must never deliver a second time
			select {
			case <-ch:
				r.status[i] = 99
			default:
			}
			continue
		}
		select {
		case err := <-ch:
			if err == nil {
				r.status[i] = 1
			} else {
				r.status[i] = 2
			}
		default:
		}
	}
}

// compare returns "" or a discrepancy (signature, description).
func allocCompare(c allocCfg, m *allocModel, r *allocReal, which string) (string, string) {
	st := r.a.Stats()
	var sumReal uint64
	for p := 0; p < c.Peers; p++ {
		g := r.a.AllocatedForPeer(allocPeers[p])
		sumReal += g
		if which != "C14" {
			if g > c.PerPeer {
				return "per-peer-limit-exceeded", fmt.Sprintf("peer %c holds %d > per-peer limit %d", 'A'+p, g, c.PerPeer)
			}
			if g != m.granted[p] {
				return "per-peer-accounting", fmt.Sprintf("peer %c: AllocatedForPeer=%d, granted-minus-released=%d", 'A'+p, g, m.granted[p])
			}
		}
	}
	if which != "C14" {
		if st.TotalAllocatedAllPeers > c.Total {
			return "total-limit-exceeded", fmt.Sprintf("total %d > limit %d", st.TotalAllocatedAllPeers, c.Total)
		}
		if st.TotalAllocatedAllPeers != m.sum() || st.TotalAllocatedAllPeers != sumReal {
			return "total-accounting", fmt.Sprintf("Stats total=%d, sum of peers=%d, expected %d", st.TotalAllocatedAllPeers, sumReal, m.sum())
		}
		var pend, npeers uint64
		for p := range m.waiting {
			var pp uint64
			for _, w := range m.waiting[p] {
				pp += w.n
			}
			if pp > 0 {
				npeers++
			}
			pend += pp
		}
		if st.TotalPendingAllocations != pend || st.NumPeersWithPendingAllocations != npeers {
			return "pending-accounting", fmt.Sprintf("Stats pending=%d/%d peers, expected %d/%d", st.TotalPendingAllocations, st.NumPeersWithPendingAllocations, pend, npeers)
		}
	}
	if which != "C13" {
		for i := range m.status {
			if r.status[i] != m.status[i] {
				names := []string{"waiting", "granted", "failed"}
				nm := func(s int) string {
					if s < 3 {
						return names[s]
					}
					return "resolved-twice"
				}
				sig := fmt.Sprintf("grant-%s-expected-%s", nm(r.status[i]), nm(m.status[i]))
				return sig, fmt.Sprintf("allocation #%d is %s, the statement requires %s", i, nm(r.status[i]), nm(m.status[i]))
			}
		}
	}
	return "", ""
}

var reAllocIdx = regexp.MustCompile(`allocIndex:(\d+)`)
var reNextIdx = regexp.MustCompile(`nextAllocIndex:\d+`)

func allocKey(r *allocReal) string {
	k := core.DeepKey(r.a, core.DeepOpts{SkipFields: map[string]bool{".allocLk": true, ".real": true}})
	// normalise allocation sequence numbers to ranks (only their order is ever used)
	var idx []int
	for _, m := range reAllocIdx.FindAllStringSubmatch(k, -1) {
		n, _ := strconv.Atoi(m[1])
		idx = append(idx, n)
	}
	sort.Ints(idx)
	rank := map[int]int{}
	for i, n := range idx {
		rank[n] = i
	}
	k = reAllocIdx.ReplaceAllStringFunc(k, func(s string) string {
		n, _ := strconv.Atoi(s[len("allocIndex:"):])
		return "allocIndex:r" + strconv.Itoa(rank[n])
	})
	k = reNextIdx.ReplaceAllString(k, "")
	return k
}

func allocReplayHist(c allocCfg, h []allocOp, which string) (*allocModel, *allocReal, string, string) {
	m := newAllocModel(c)
	r := &allocReal{a: allocator.NewAllocator(c.Total, c.PerPeer)}
	for _, o := range h {
		m.apply(o)
		r.apply(o)
	}
	if r.panicked != "" {
		return m, r, "allocator-panicked", r.panicked
	}
	sig, what := allocCompare(c, m, r, which)
	return m, r, sig, what
}

func allocOps(c allocCfg) []allocOp {
	var ops []allocOp
	for p := 0; p < c.Peers; p++ {
		for _, n := range c.Amounts {
			ops = append(ops, allocOp{"a", p, n})
		}
	}
	for p := 0; p < c.Peers; p++ {
		for _, n := range c.Amounts {
			ops = append(ops, allocOp{"r", p, n})
		}
	}
	for p := 0; p < c.Peers; p++ {
		ops = append(ops, allocOp{"p", p, 0})
	}
	return ops
}

func histString(h []allocOp) string {
	s := make([]string, len(h))
	for i, o := range h {
		s[i] = o.String()
	}
	return strings.Join(s, " ")
}

func runAlloc(c *core.Ctx, which string) {
	cfgs := []allocCfg{}
	for _, l := range [][2]uint64{{3, 2}, {4, 2}, {4, 3}, {6, 3}, {3, 3}} {
		cfgs = append(cfgs, allocCfg{Total: l[0], PerPeer: l[1], Peers: 3, Amounts: []uint64{1, 2, 3}})
	}
	depth := 6
	if c.Thorough() {
		depth = 8
	}
	var root int64
	for _, cfg := range cfgs {
		ops := allocOps(cfg)
		for _, first := range ops {
			root++
			if !c.Mine(root) {
				continue
			}
			allocBFS(c, cfg, []allocOp{first}, ops, depth, which)
		}
	}
	c.Res.BoundCompleted = depth
}

func allocBFS(c *core.Ctx, cfg allocCfg, start []allocOp, ops []allocOp, depth int, which string) {
	seen := map[string]bool{}
	frontier := [][]allocOp{}
	visit := func(h []allocOp) {
		m, r, sig, what := allocReplayHist(cfg, h, which)
		c.Res.Transitions++
		c.Res.Traces++
		c.Res.Evaluations++
		rep := map[string]any{"total": cfg.Total, "per_peer": cfg.PerPeer, "history": h, "readable": histString(h)}
		if sig != "" {
			c.Violate(sig, fmt.Sprintf("limits total=%d perPeer=%d, after [%s]: %s", cfg.Total, cfg.PerPeer, histString(h), what), rep)
			return
		}
		k := allocKey(r)
		if seen[k] {
			return
		}
		seen[k] = true
		c.Res.States++
		nw := 0
		for _, w := range m.waiting {
			nw += len(w)
		}
		c.Class(fmt.Sprintf("granted=%v waiting=%d", m.granted, nw))
		if nw > 0 {
			c.Count("states_with_waiters", 1)
		}
		if len(h) <= 4 && nw > 1 {
			c.Sample(histString(h))
		}
		// "release everything" suffixes from every new state
		for variant := 0; variant < 2; variant++ {
			suffix := append([]allocOp{}, h...)
			if variant == 0 {
				for p := 0; p < cfg.Peers; p++ {
					suffix = append(suffix, allocOp{"p", p, 0})
				}
			} else {
				// release granted amounts until nothing changes, then drop the peers
				mm := newAllocModel(cfg)
				for _, o := range h {
					mm.apply(o)
				}
				for round := 0; round < 12; round++ {
					any := false
					for p := 0; p < cfg.Peers; p++ {
						if mm.granted[p] > 0 {
							o := allocOp{"r", p, mm.granted[p]}
							mm.apply(o)
							suffix = append(suffix, o)
							any = true
						}
					}
					if !any {
						break
					}
				}
				for p := cfg.Peers - 1; p >= 0; p-- {
					suffix = append(suffix, allocOp{"p", p, 0})
				}
			}
			_, r2, sig, what := allocReplayHist(cfg, suffix, which)
			c.Res.Transitions++
			if sig == "" && which != "C14" {
				st := r2.a.Stats()
				if st.TotalAllocatedAllPeers != 0 || st.TotalPendingAllocations != 0 || st.NumPeersWithPendingAllocations != 0 {
					sig, what = "residue-after-release-all", fmt.Sprintf("after releasing everything Stats=%+v", st)
				}
			}
			if sig == "" && which != "C13" {
				for i, s := range r2.status {
					if s == 0 {
						sig, what = "waiter-left-after-release-all", fmt.Sprintf("allocation #%d still waiting after every peer was released", i)
					}
				}
			}
			if sig != "" {
				c.Violate(sig+"(release-all)", fmt.Sprintf("limits total=%d perPeer=%d, after [%s]: %s", cfg.Total, cfg.PerPeer, histString(suffix), what),
					map[string]any{"total": cfg.Total, "per_peer": cfg.PerPeer, "history": suffix, "readable": histString(suffix)})
			}
		}
		if len(h) < depth {
			frontier = append(frontier, h)
		}
	}
	visit(start)
	for len(frontier) > 0 {
		if c.Expired() {
			c.Res.Exhaustive = false
			c.Note("deadline hit during BFS")
			return
		}
		h := frontier[0]
		frontier = frontier[1:]
		for _, o := range ops {
			nh := append(append([]allocOp{}, h...), o)
			visit(nh)
		}
	}
}

func allocReplay(which string) func(raw json.RawMessage) string {
	return func(raw json.RawMessage) string {
		var r struct {
			Total   uint64    `json:"total"`
			PerPeer uint64    `json:"per_peer"`
			History []allocOp `json:"history"`
		}
		if err := json.Unmarshal(raw, &r); err != nil {
			return err.Error()
		}
		cfg := allocCfg{Total: r.Total, PerPeer: r.PerPeer, Peers: 4, Amounts: []uint64{1, 2, 3}}
		_, _, sig, what := allocReplayHist(cfg, r.History, which)
		if sig == "" {
			return "ok"
		}
		return sig + ": " + what
	}
}

func init() {
	rule := "explicit-state BFS over histories of alloc(p,n)/release(p,n)/releasePeer(p), p in {A,B,C}, n in {1,2,3}, 5 limit configurations; successor = replay of the history on a fresh real allocator.Allocator plus one operation; states merged on a canonical dump of the allocator's private state (peer table, pending FIFOs with rank-normalised sequence numbers, priority-queue layout); a class is a distinct (granted vector, #waiting) observation"
	assume := []string{"reference model transcribes the C13/C14 statements (heads-only reading of 'ahead of it')", "canonical key covers every private field of Allocator except its lock", "sequential calls; the concurrent pass is separate"}
	core.Register(&core.Prop{ID: "C13", Level: "model_checking", Rule: rule, Assumptions: assume, NoQuickPhase: true,
		Run: func(c *core.Ctx) { runAlloc(c, "C13") }, Replay: allocReplay("C13"), QuickBudget: 240, ThoroughBudget: 1500})
	core.Register(&core.Prop{ID: "C14", Level: "model_checking", Rule: rule, Assumptions: assume, NoQuickPhase: true,
		Run: func(c *core.Ctx) { runAlloc(c, "C14") }, Replay: allocReplay("C14"), QuickBudget: 240, ThoroughBudget: 1500})
}
