package props

import (
	"context"
	"encoding/json"
	"errors"
	"fmt"
	"strings"

	"github.com/ipfs/go-graphsync"
	gsimpl "github.com/ipfs/go-graphsync/impl"
	gsmsg "github.com/ipfs/go-graphsync/message"
	"github.com/ipfs/go-graphsync/zzverif/vsched"
	cidlink "github.com/ipld/go-ipld-prime/linking/cid"
	"github.com/ipld/go-ipld-prime/node/basicnode"
	"github.com/libp2p/go-libp2p/core/peer"

	"verif/core"
	"verif/harness"
)

// C10: messages from one peer cannot alter a response served to another
// (DESIGN 6 C10). Real responder R; scripted peers P1 (owner of the response)
// and P2 (intruder). Differential oracle vs. the run without P2's message.

type c10Case struct {
	State  string `json:"state"`                 // paused | queued | running | completing | finished
	Intr   string `json:"intruder"`              // none | cancel | update | new-same-root | new-other-root | new-bad-selector | new-own-id-same-root
	UpHook string `json:"update_hook,omitempty"` // noop | unpause | error
	Twice  bool   `json:"twice,omitempty"`
}

func (c c10Case) String() string {
	t := ""
	if c.Twice {
		t = " (sent twice)"
	}
	return fmt.Sprintf("P1's response %s; P2 sends %s%s; update hook %s", c.State, c.Intr, t, c.UpHook)
}

type c10Obs struct {
	p1Wire   []string // what P1 received for its request X: per message status / metadata / #blocks
	p1Blocks int
	notes    []string // R's listener notifications naming P1 and X
	states   string   // R's reported state for X at the moment after the intruder's message settled
	panicked string
	deadlock bool
	events   int
}

func c10Run(cs c10Case) *c10Obs {
	o := &c10Obs{}
	sh := harness.Shape{Name: "chain3", Blocks: []harness.BlockSpec{{Edges: []harness.Edge{{To: 1}}}, {Edges: []harness.Edge{{To: 2, Form: harness.Inline}}}, {}}}
	d := harness.Build(sh, "c10")
	other := harness.Build(sh, "c10-other")
	blocker := harness.Build(sh, "c10-blocker")
	sel := harness.RecAll(10)
	s := vsched.Run(vsched.Config{Fast: true}, func() {
		f := harness.NewFixture(true)
		rs := harness.NewStore()
		for _, dg := range []*harness.DAG{d, other, blocker} {
			for i, l := range dg.Links {
				rs.Put(l, dg.Data[i])
			}
		}
		var opts []gsimpl.Option
		oneBlock := 0
		for _, dg := range []*harness.DAG{d, other, blocker} {
			for _, b := range dg.Data {
				oneBlock = max(oneBlock, len(b)+4)
			}
		}
		switch cs.State {
		case "queued":
			opts = append(opts, gsimpl.MaxInProgressIncomingRequests(1), gsimpl.MaxMemoryPerPeerResponder(uint64(oneBlock)))
		case "running":
			opts = append(opts, gsimpl.MaxMemoryPerPeerResponder(uint64(oneBlock)))
		}
		r := f.AddNode(peer.ID("R"), rs, opts...)
		p1 := f.AddScript(peer.ID("P1"))
		p2 := f.AddScript(peer.ID("P2"))
		x := harness.MkID(7)
		held := cs.State == "queued" || cs.State == "running" || cs.State == "completing"
		f.Net.SendFault = func(from, to peer.ID, k int, m gsmsg.GraphSyncMessage) harness.FaultAction {
			if held && from == r.ID && to == p1.ID {
				return harness.SendHold
			}
			return harness.SendOK
		}
		pausedByHook := false
		r.GS.RegisterIncomingRequestHook(func(p peer.ID, rq graphsync.RequestData, ha graphsync.IncomingRequestHookActions) {
			ha.ValidateRequest()
			if cs.State == "paused" && p == p1.ID && rq.ID() == x && !pausedByHook {
				pausedByHook = true
				ha.PauseResponse()
			}
		})
		r.GS.RegisterRequestUpdatedHook(func(p peer.ID, rq graphsync.RequestData, upd graphsync.RequestData, ha graphsync.RequestUpdatedHookActions) {
			switch cs.UpHook {
			case "unpause":
				ha.UnpauseResponse()
			case "error":
				ha.TerminateWithError(errors.New("update refused"))
			}
		})
		// P2's own request (fresh id) pauses itself at its second block and stays in progress: whatever it has
		// traversed must not count as "already sent" for P1
		nP2 := 0
		r.GS.RegisterOutgoingBlockHook(func(p peer.ID, rq graphsync.RequestData, b graphsync.BlockData, ha graphsync.OutgoingBlockHookActions) {
			if p == p2.ID && rq.ID() == harness.MkID(77) {
				nP2++
				if nP2 == 2 {
					ha.PauseResponse()
				}
			}
		})
		note := func(kind string, p peer.ID, id graphsync.RequestID, extra string) {
			if p == p1.ID && id == x {
				o.notes = append(o.notes, kind+extra)
			}
		}
		r.GS.RegisterCompletedResponseListener(func(p peer.ID, rq graphsync.RequestData, st graphsync.ResponseStatusCode) {
			note("completed:", p, rq.ID(), st.String())
		})
		r.GS.RegisterRequestorCancelledListener(func(p peer.ID, rq graphsync.RequestData) { note("cancelled", p, rq.ID(), "") })
		r.GS.RegisterNetworkErrorListener(func(p peer.ID, rq graphsync.RequestData, err error) { note("network-error", p, rq.ID(), "") })
		deliverAll := func() {
			evs := f.Deliveries(r.ID, p1.ID, p2.ID)
			for i := 0; i < 200; i++ {
				any := false
				for _, e := range evs {
					if e.Enabled() {
						o.events++
						e.Do()
						vsched.Quiesce()
						any = true
					}
				}
				if !any {
					break
				}
			}
		}
		root := func(dg *harness.DAG) gsmsg.GraphSyncRequest {
			return gsmsg.NewRequest(x, dg.Root.(cidlink.Link).Cid, sel, 1)
		}
		// P1's traffic
		if cs.State == "queued" {
			p1.Say(r.ID, harness.ReqMsg(gsmsg.NewRequest(harness.MkID(8), blocker.Root.(cidlink.Link).Cid, sel, 1)))
			deliverAll()
		}
		p1.Say(r.ID, harness.ReqMsg(root(d)))
		deliverAll()
		// P2's message
		var m *gsmsg.GraphSyncMessage
		mk := func(rq gsmsg.GraphSyncRequest) { mm := harness.ReqMsg(rq); m = &mm }
		switch cs.Intr {
		case "cancel":
			mk(gsmsg.NewCancelRequest(x))
		case "update":
			mk(gsmsg.NewUpdateRequest(x, graphsync.ExtensionData{Name: "x/p2", Data: basicnode.NewString("from P2")}))
		case "new-same-root":
			mk(root(d))
		case "new-other-root":
			mk(root(other))
		case "new-bad-selector":
			mk(gsmsg.NewRequest(x, d.Root.(cidlink.Link).Cid, basicnode.NewString("not a selector"), 1))
		case "new-own-id-same-root":
			// an ordinary request of P2's own (fresh id) for the same DAG: P1's response must not notice it
			mk(gsmsg.NewRequest(harness.MkID(77), d.Root.(cidlink.Link).Cid, sel, 1))
		}
		if m != nil {
			p2.Say(r.ID, *m)
			if cs.Twice {
				p2.Say(r.ID, *m)
			}
			deliverAll()
		}
		st := r.GS.(*gsimpl.GraphSync).PeerState(p1.ID).IncomingState.RequestStates
		if v, ok := st[x]; ok {
			o.states = v.String()
		} else {
			o.states = "absent"
		}
		// let everything finish
		f.Net.ReleaseHeld()
		vsched.Quiesce()
		deliverAll()
		if cs.State == "paused" {
			_ = r.GS.Unpause(context.Background(), x)
			vsched.Quiesce()
			deliverAll()
		}
		for _, w := range p1.Inbox {
			for _, rsp := range w.Msg.Responses() {
				if rsp.RequestID() != x {
					continue
				}
				var md []string
				if g, ok := rsp.Metadata().(gsmsg.GraphSyncLinkMetadata); ok {
					for _, e := range g.RawMetadata() {
						md = append(md, d.Name(cidlink.Link{Cid: e.Link})+string(e.Action[:1]))
					}
				}
				var ex []string
				for _, n := range rsp.ExtensionNames() {
					ex = append(ex, string(n))
				}
				o.p1Wire = append(o.p1Wire, fmt.Sprintf("%s%v%v", rsp.Status(), md, ex))
			}
			for _, b := range w.Msg.Blocks() {
				if _, ok := d.Index[cidlink.Link{Cid: b.Cid()}.Binary()]; ok {
					o.p1Blocks++
				}
			}
		}
		f.Cancel()
	})
	o.deadlock = s.Deadlock
	if s.Panic != nil {
		o.panicked = fmt.Sprint(s.Panic)
	}
	return o
}

var c10Base = map[string]*c10Obs{}

// c10Flat: P1's output regardless of how it was batched into messages.
func c10Flat(w []string) string {
	var md []string
	last := ""
	for _, m := range w {
		i := strings.Index(m, "[")
		last = m[:i]
		md = append(md, m[i:])
	}
	return last + " " + strings.Join(md, "")
}

func c10Judge(cs c10Case, o *c10Obs) (sig, what string) {
	key := cs.State + "/" + cs.UpHook
	base, ok := c10Base[key]
	if !ok {
		b := cs
		b.Intr, b.Twice = "none", false
		base = c10Run(b)
		c10Base[key] = base
	}
	if o.panicked != "" {
		return "panic", o.panicked
	}
	if base.panicked != "" {
		return "", ""
	}
	tag := cs.Intr + "/response-" + cs.State
	if strings.HasPrefix(cs.Intr, "new-") && cs.Intr != "new-own-id-same-root" {
		// one cause whatever the new request asks for: the table of responses is keyed by request id alone
		sig, what = c10JudgeInner(cs, o, base, tag)
		if sig != "" {
			return "new-request-with-id-in-use-replaces-response/response-" + cs.State + "/" + strings.SplitN(sig, "/", 2)[0], what
		}
		return "", ""
	}
	return c10JudgeInner(cs, o, base, tag)
}

func c10JudgeInner(cs c10Case, o, base *c10Obs, tag string) (sig, what string) {
	if strings.Join(o.notes, ",") != strings.Join(base.notes, ",") {
		return "outcome-notifications-changed/" + tag, fmt.Sprintf("notifications for P1's response %v, without P2's message %v (state right after P2's message: %s, without: %s)", o.notes, base.notes, o.states, base.states)
	}
	if c10Flat(o.p1Wire) != c10Flat(base.p1Wire) || o.p1Blocks != base.p1Blocks {
		return "response-to-first-peer-changed/" + tag, fmt.Sprintf("P1 received %v (%d blocks), without P2's message %v (%d blocks); state right after P2's message: %s, without: %s", o.p1Wire, o.p1Blocks, base.p1Wire, base.p1Blocks, o.states, base.states)
	}
	if o.states != base.states {
		return "response-state-changed/" + tag, fmt.Sprintf("state of P1's response right after P2's message: %s, without it: %s", o.states, base.states)
	}
	return "", ""
}

func runC10(c *core.Ctx) {
	var idx int64
	for _, st := range []string{"paused", "queued", "running", "completing", "finished"} {
		for _, intr := range []string{"cancel", "update", "new-same-root", "new-other-root", "new-bad-selector", "new-own-id-same-root"} {
			hooks := []string{"noop"}
			if intr == "update" {
				hooks = []string{"noop", "unpause", "error"}
			}
			for _, h := range hooks {
				for _, twice := range []bool{false, true} {
					idx++
					if !c.Mine(idx) {
						continue
					}
					cs := c10Case{State: st, Intr: intr, UpHook: h, Twice: twice}
					o := c10Run(cs)
					sig, what := c10Judge(cs, o)
					c.Res.Evaluations++
					c.Res.Traces++
					c.Res.States++
					c.Res.Transitions += int64(o.events)
					c.Class(fmt.Sprintf("%s state-after=%s", st, o.states))
					c.Sample(cs.String())
					if sig != "" {
						c.Violate(sig, cs.String()+": "+what, cs)
					}
				}
			}
		}
	}
}

func init() {
	core.Register(&core.Prop{ID: "C10", Level: "model_checking",
		Rule:        "P1's response parked in each lifecycle state (paused by a request hook; queued behind a blocker with one worker; running but held at a blocked send with a one-block memory allowance; completing-send with its messages held; finished) x P2's message carrying the same request id {cancel, update with an extension (update hook: none / unpause / error), new request for the same root, for another root, with an unparsable selector} or an ordinary request of P2's own (fresh id) for the same DAG, once or twice; afterwards held sends are released and a paused response is unpaused; a class is (state, reported state after P2's message)",
		Assumptions: []string{"differential oracle: the same scenario without P2's message; P1's output is compared after flattening the batching into messages", "event-level script (gated network), default schedule"},
		Run:         runC10, QuickBudget: 200, ThoroughBudget: 600,
		Replay: func(raw json.RawMessage) string {
			var cs c10Case
			if err := json.Unmarshal(raw, &cs); err != nil {
				return err.Error()
			}
			o := c10Run(cs)
			sig, what := c10Judge(cs, o)
			if sig == "" {
				return fmt.Sprintf("ok (P1 received %v, %d blocks; notifications %v; state after intruder %s; deadlock=%v)", o.p1Wire, o.p1Blocks, o.notes, o.states, o.deadlock)
			}
			return sig + ": " + what
		}})
}
