package props

import (
	"context"
	"encoding/json"
	"errors"
	"fmt"
	"os"
	"reflect"
	"sort"
	"strings"
	"time"

	blocks "github.com/ipfs/go-block-format"
	"github.com/ipfs/go-cid"
	"github.com/ipfs/go-graphsync"
	"github.com/ipfs/go-graphsync/allocator"
	gsmsg "github.com/ipfs/go-graphsync/message"
	"github.com/ipfs/go-graphsync/messagequeue"
	gsnet "github.com/ipfs/go-graphsync/network"
	"github.com/ipfs/go-graphsync/notifications"
	"github.com/ipfs/go-graphsync/peermanager"
	"github.com/ipfs/go-graphsync/responsemanager/responseassembler"
	"github.com/ipfs/go-graphsync/zzverif/vsched"
	cidlink "github.com/ipld/go-ipld-prime/linking/cid"
	"github.com/ipld/go-ipld-prime/node/basicnode"
	"github.com/libp2p/go-libp2p/core/peer"

	"verif/core"
)

// Component harness for C15/C16/C17 (DESIGN 6): real ResponseAssembler ->
// PeerMessageManager -> MessageQueue -> Allocator -> notifications, with a
// fake MessageNetwork whose faults are environment choices of the explorer.

type mqOp struct {
	K      string `json:"k"`                 // "req" | "blk" | "ext" | "fin" | "C" | "D"
	AtDial int    `json:"at_dial,omitempty"` // D only: issued while the n-th dial of the queue is in flight
	Req    int    `json:"r,omitempty"`       // request number (response stream) for blk/ext/fin
	Size   int    `json:"s,omitempty"`
	Same   bool   `json:"same,omitempty"` // blk: shared content (the same block for every request)
}

func (o mqOp) String() string {
	switch o.K {
	case "req":
		return "req"
	case "blk", "ext":
		if o.Same {
			return fmt.Sprintf("%s(r%d,%d,shared)", o.K, o.Req, o.Size)
		}
		return fmt.Sprintf("%s(r%d,%d)", o.K, o.Req, o.Size)
	case "skip":
		return fmt.Sprintf("skip-first(r%d,%d)", o.Req, o.Size)
	case "fin":
		return fmt.Sprintf("fin(r%d)", o.Req)
	}
	if o.AtDial > 0 {
		return fmt.Sprintf("%s@dial%d", o.K, o.AtDial)
	}
	return o.K
}

type mqScenario struct {
	Name      string   `json:"name"`
	Threads   [][]mqOp `json:"threads"`
	Retries   int      `json:"retries"`
	Faults    bool     `json:"faults"`          // send/connect failures are environment choices
	MaxFaults int      `json:"max_faults"`      // cap on failure choice points offered
	PerPeer   uint64   `json:"per_peer"`        // allocator per-peer limit (0: large)
	PreConn   bool     `json:"pre_conn"`        // Connected(p) before the threads start
	Bound     int      `json:"bound,omitempty"` // per-scenario deviation bound override
	Hold      bool     `json:"hold,omitempty"`  // the first SendMsg parks until every driver thread has finished
}

func (sc mqScenario) String() string {
	var parts []string
	for _, t := range sc.Threads {
		var s []string
		for _, o := range t {
			s = append(s, o.String())
		}
		parts = append(parts, strings.Join(s, ","))
	}
	return fmt.Sprintf("%s[%s retries=%d faults=%v preconn=%v]", sc.Name, strings.Join(parts, " || "), sc.Retries, sc.Faults, sc.PreConn)
}

type mqSent struct {
	Queue int
	Items []string // "t<thread>.<n>" items carried by the message
	Bytes uint64
}

type mqSub struct {
	name   string
	events []string // "<topic>:<Sent|Error|Queued>" and "<topic>:close"
}

func (s *mqSub) OnNext(t notifications.Topic, ev notifications.Event) {
	e, ok := ev.(messagequeue.Event)
	if !ok {
		return
	}
	names := []string{"Queued", "Sent", "Error"}
	s.events = append(s.events, fmt.Sprintf("%v:%s", t, names[e.Name]))
}
func (s *mqSub) OnClose(t notifications.Topic) {
	s.events = append(s.events, fmt.Sprintf("%v:close", t))
}

// mqProxy is the per-(builder, request) stand-in for the real subscriber: it
// forwards to it and records exactly the events of this one attachment.
type mqProxy struct {
	inner  notifications.Subscriber
	name   string
	events []string
}

func (p *mqProxy) OnNext(t notifications.Topic, ev notifications.Event) {
	if e, ok := ev.(messagequeue.Event); ok {
		p.events = append(p.events, []string{"Queued", "Sent", "Error"}[e.Name])
	}
	p.inner.OnNext(t, ev)
}
func (p *mqProxy) OnClose(t notifications.Topic) {
	p.events = append(p.events, "close")
	p.inner.OnClose(t)
}

type mqAttach struct {
	proxy   *mqProxy
	builder *messagequeue.Builder
	queue   int
	sub     *mqSub
	req     graphsync.RequestID
}

type mqQueue struct {
	w         *mqWorld
	id        int
	mq        *messagequeue.MessageQueue
	told      bool // Shutdown() was called on it by the peer manager
	exited    bool // its goroutine ran its shutdown callback
	sendingNo int  // >0 while inside SendMsg
	inNet     int  // >0 while the queue's goroutine is inside a network call (dial or write): it has certainly not run its final drain yet
}

type mqWorld struct {
	sc                      mqScenario
	alloc                   *allocator.Allocator
	queues                  []*mqQueue
	sent                    []mqSent
	attaches                []mqAttach
	subs                    map[string]*mqSub
	viol                    []string // signature|detail
	faults                  int
	allocFail               int // reservations that resolved with an error yet the build went on
	reserved                map[int]bool
	builtWithoutReservation int
	inSend                  int
	binfo                   map[*messagequeue.Builder]*mqBInfo
	reservedNotBuilt        uint64 // bytes reserved for a build that then added nothing
	reservedNotBuiltSizes   []uint64
	allocCalls              int // reservations requested so far
	release                 chan struct{}
	sends                   int
	dials                   int
	dialCh                  map[int]chan struct{}
}

type mqBInfo struct {
	q           *mqQueue
	deadAtBuild bool // the queue had been shut down before the (last) build into this builder
	busyAtBuild bool // some AllocateAndBuildMessage call into this builder returned while the queue's goroutine was inside a network call, i.e. before its final drain
}

func (w *mqWorld) violate(sig, what string) { w.viol = append(w.viol, sig+"|"+what) }

func doneClosed(mq *messagequeue.MessageQueue) bool {
	f, ok := core.Field(mq, "done")
	if !ok || f.IsNil() {
		return false
	}
	x, ok2 := f.TryRecv()
	return !ok2 && x.IsValid()
}

func (w *mqWorld) live() []int {
	var out []int
	for _, q := range w.queues {
		if !q.told && !q.exited && !doneClosed(q.mq) {
			out = append(out, q.id)
		}
	}
	return out
}

// fake network of one queue
type mqNet struct {
	w *mqWorld
	q *mqQueue
}

func (n *mqNet) ConnectTo(ctx context.Context, p peer.ID) error {
	n.q.inNet++
	defer func() { n.q.inNet-- }()
	n.w.dials++
	if ch, ok := n.w.dialCh[n.w.dials]; ok {
		close(ch) // a driver waits for this dial to be in flight
	}
	vsched.Yield() // the dial is in flight: anything may happen before it resolves
	if n.w.sc.Faults && n.w.faults < n.w.sc.MaxFaults {
		if vsched.Choose(2) == 1 {
			n.w.faults++
			return errors.New("injected connect failure")
		}
	}
	return nil
}

func (n *mqNet) NewMessageSender(context.Context, peer.ID, gsnet.MessageSenderOpts) (gsnet.MessageSender, error) {
	return &mqSender{n}, nil
}

type mqSender struct{ n *mqNet }

func (s *mqSender) Close() error { return nil }
func (s *mqSender) Reset() error { return nil }
func (s *mqSender) SendMsg(ctx context.Context, m gsmsg.GraphSyncMessage) error {
	s.n.q.inNet++
	defer func() { s.n.q.inNet-- }()
	w := s.n.w
	w.sends++
	vsched.Yield() // the write is in flight
	if w.sc.Hold && w.sends == 1 {
		<-w.release
	}
	if w.sc.Faults && w.faults < w.sc.MaxFaults {
		if vsched.Choose(2) == 1 {
			w.faults++
			return errors.New("injected send failure")
		}
	}
	// C15, while no queue of the peer has been shut down (then the only releases are per message): what the
	// allocator holds for the peer covers at least this message and everything still pending behind it
	if len(w.queues) == 1 && !s.n.q.told && !s.n.q.exited && !doneClosed(s.n.q.mq) {
		var unsent uint64
		for _, b := range m.Blocks() {
			unsent += uint64(len(b.RawData()))
		}
		if bf, ok := core.Field(s.n.q.mq, "builders"); ok {
			for i := 0; i < bf.Len(); i++ {
				if b, ok := bf.Index(i).Interface().(*messagequeue.Builder); ok {
					unsent += b.BlockSize()
				}
			}
		}
		if held := w.alloc.AllocatedForPeer(mqPeer); held < unsent {
			w.violate("accounted-less-than-unsent", fmt.Sprintf("at a write of queue %d the allocator holds %d bytes for the peer while %d bytes of block data are unsent (this message and the pending ones): some bytes were returned more than once", s.n.q.id, held, unsent))
		}
	}
	// two queues of one peer must never be inside SendMsg at once
	if w.inSend > 0 {
		w.violate("concurrent-send-by-two-queues", fmt.Sprintf("queue %d sends while another queue of the same peer is sending", s.n.q.id))
	}
	var items []string
	for _, r := range m.Requests() {
		b := r.ID().Bytes()
		items = append(items, fmt.Sprintf("t%d.%d", b[1], b[2]))
	}
	var size uint64
	for _, b := range m.Blocks() {
		d := b.RawData()
		size += uint64(len(d))
		items = append(items, fmt.Sprintf("t%d.%d", d[0], d[1]))
	}
	for _, r := range m.Responses() {
		if r.Status().IsTerminal() {
			b := r.RequestID().Bytes()
			items = append(items, fmt.Sprintf("fin%d", b[0]))
		}
	}
	sort.Strings(items)
	w.sent = append(w.sent, mqSent{Queue: s.n.q.id, Items: items, Bytes: size})
	return nil
}

var mqPeer = peer.ID("P")

func mqReqID(req, thread, n int) graphsync.RequestID {
	x := []byte("0123456789abcdef")
	x[0], x[1], x[2] = byte(req), byte(thread), byte(n)
	id, _ := graphsync.ParseRequestID(x)
	return id
}

// interceptor between the assembler / request path and the real PeerMessageManager
type mqHandler struct {
	w   *mqWorld
	pmm *peermanager.PeerMessageManager
}

func (h *mqHandler) AllocateAndBuildMessage(p peer.ID, size uint64, fn func(*messagequeue.Builder)) {
	h.pmm.AllocateAndBuildMessage(p, size, func(b *messagequeue.Builder) {
		fn(b)
		for id, sub := range b.Subscribers() {
			if _, isProxy := sub.(*mqProxy); isProxy {
				continue
			}
			var px *mqProxy
			for _, a := range h.w.attaches {
				if a.builder == b && a.req == id {
					px = a.proxy
				}
			}
			if px == nil {
				name := "?"
				if ms, ok := sub.(*mqSub); ok {
					name = ms.name
				}
				px = &mqProxy{inner: sub, name: name}
				h.w.attaches = append(h.w.attaches, mqAttach{proxy: px, builder: b, req: id})
			}
			b.SetSubscriber(id, px)
		}
	})
}

// allocator wrapper: records whether reservations succeed
type mqAlloc struct {
	w     *mqWorld
	inner *allocator.Allocator
}

func (a *mqAlloc) AllocateBlockMemory(p peer.ID, n uint64) <-chan error {
	a.w.allocCalls++
	ch := a.inner.AllocateBlockMemory(p, n)
	out := make(chan error, 1)
	fwd := func(err error) {
		if err != nil {
			a.w.allocFail++
		}
		out <- err
	}
	if len(ch) == 1 {
		fwd(<-ch)
		return out
	}
	go func() { fwd(<-ch) }()
	return out
}
func (a *mqAlloc) ReleasePeerMemory(p peer.ID) error { return a.inner.ReleasePeerMemory(p) }
func (a *mqAlloc) ReleaseBlockMemory(p peer.ID, n uint64) error {
	return a.inner.ReleaseBlockMemory(p, n)
}

type mqObs struct {
	strandedLive     int // non-empty builders in a live, idle queue at the idle point
	viol             []string
	allocIdle        uint64 // AllocatedForPeer at the idle point (connection up, nothing queued)
	statsIdle        graphsync.ResponseStats
	allocEnd         uint64
	queues           int
	aliveAtEnd       int
	sent             []mqSent
	outcome          string
	allocFail        int
	unresolved       []string
	duplicates       []string
	faults           int
	deadlock         bool
	panicked         string
	attachments      int
	reservedNotBuilt uint64
	notBuiltSizes    []uint64
	stranded         int // builders with content left in a queue whose goroutine has exited
	unresCause       string
}

func mqBlock(thread, n, size int) (blocks.Block, cidlink.Link) {
	d := make([]byte, size)
	if size >= 2 {
		d[0], d[1] = byte(thread), byte(n)
	}
	for i := 2; i < size; i++ {
		d[i] = byte(i)
	}
	c, _ := cid.Prefix{Version: 1, Codec: 0x55, MhType: 0x12, MhLength: 32}.Sum(d)
	b, _ := blocks.NewBlockWithCid(d, c)
	return b, cidlink.Link{Cid: c}
}

// mqRun executes one scenario under the given scheduler config.
func mqRun(cfg vsched.Config, sc mqScenario) (*mqObs, *vsched.Sched) {
	obs := &mqObs{}
	var atDeadlock func()
	cfg.OnDeadlock = func() {
		if atDeadlock != nil {
			atDeadlock()
		}
	}
	s := vsched.Run(cfg, func() {
		ctx, cancel := context.WithCancel(context.Background())
		defer cancel()
		per := sc.PerPeer
		if per == 0 {
			per = 1 << 30
		}
		w := &mqWorld{sc: sc, subs: map[string]*mqSub{}, binfo: map[*messagequeue.Builder]*mqBInfo{}, release: make(chan struct{}), dialCh: map[int]chan struct{}{}}
		for _, t := range sc.Threads {
			for _, o := range t {
				if o.AtDial > 0 {
					w.dialCh[o.AtDial] = make(chan struct{})
				}
			}
		}
		w.alloc = allocator.NewAllocator(1<<30, per)
		alloc := &mqAlloc{w, w.alloc}
		pmm := peermanager.NewMessageManager(ctx, func(ctx context.Context, p peer.ID, onShutdown func(peer.ID)) peermanager.PeerQueue {
			q := &mqQueue{w: w, id: len(w.queues) + 1}
			if l := w.live(); len(l) > 0 {
				w.violate("two-live-queues", fmt.Sprintf("queue %d created while queue(s) %v of the same peer are live", q.id, l))
			}
			q.mq = messagequeue.New(ctx, p, &mqNet{w, q}, alloc, sc.Retries, time.Minute, func(p peer.ID) {
				q.exited = true
				onShutdown(p)
			})
			w.queues = append(w.queues, q)
			return &mqQueueWrap{q}
		})
		strandedNow := func() int {
			n := 0
			for _, q := range w.queues {
				if bf, ok := core.Field(q.mq, "builders"); ok && (q.exited || doneClosed(q.mq)) {
					for i := 0; i < bf.Len(); i++ {
						if b, ok := bf.Index(i).Interface().(*messagequeue.Builder); ok && !b.Empty() {
							n++
						}
					}
				}
			}
			return n
		}
		strandedLiveNow := func() int {
			n := 0
			for _, q := range w.queues {
				if bf, ok := core.Field(q.mq, "builders"); ok && !q.exited && !doneClosed(q.mq) {
					for i := 0; i < bf.Len(); i++ {
						if b, ok := bf.Index(i).Interface().(*messagequeue.Builder); ok && !b.Empty() {
							n++
						}
					}
				}
			}
			return n
		}
		atDeadlock = func() {
			obs.allocIdle = w.alloc.AllocatedForPeer(mqPeer)
			obs.statsIdle = w.alloc.Stats()
			obs.stranded = strandedNow()
			obs.reservedNotBuilt = w.reservedNotBuilt
			obs.notBuiltSizes = append([]uint64(nil), w.reservedNotBuiltSizes...)
			obs.allocFail = w.allocFail
			obs.queues = len(w.queues)
			obs.faults = w.faults
			obs.sent = append(obs.sent, w.sent...)
		}
		h := &mqHandler{w, pmm}
		ra := responseassembler.New(ctx, h)
		streams := map[int]responseassembler.ResponseStream{}
		stream := func(req int) responseassembler.ResponseStream {
			st, ok := streams[req]
			if !ok {
				sub := &mqSub{name: fmt.Sprintf("resp%d", req)}
				w.subs[sub.name] = sub
				st = ra.NewStream(ctx, mqPeer, mqReqID(req, 0, 0), sub)
				streams[req] = st
			}
			return st
		}
		// streams are created up front (as the response manager does on request arrival)
		for _, t := range sc.Threads {
			for _, o := range t {
				if o.K == "blk" || o.K == "ext" || o.K == "fin" {
					stream(o.Req)
				}
			}
		}
		if sc.PreConn {
			pmm.Connected(mqPeer)
		}
		done := make(chan struct{}, len(sc.Threads))
		for ti, t := range sc.Threads {
			ti, t := ti, t
			go func() {
				for n, o := range t {
					switch o.K {
					case "Q":
						vsched.Quiesce()
					case "noop":
						// a build that adds nothing (what a transaction on an already closed stream does)
						h.AllocateAndBuildMessage(mqPeer, 0, func(b *messagequeue.Builder) {})
					case "C":
						pmm.Connected(mqPeer)
					case "D":
						if o.AtDial > 0 {
							<-w.dialCh[o.AtDial]
						}
						pmm.Disconnected(mqPeer)
					case "req":
						id := mqReqID(9, ti, n)
						sub := &mqSub{name: fmt.Sprintf("req.t%d.%d", ti, n)}
						w.subs[sub.name] = sub
						h.AllocateAndBuildMessage(mqPeer, 0, func(b *messagequeue.Builder) {
							b.AddRequest(gsmsg.NewCancelRequest(id))
							b.SetSubscriber(id, sub)
						})
					case "blk":
						blk, lnk := mqBlock(ti, n, o.Size)
						if o.Same {
							blk, lnk = mqBlock(200, 0, o.Size)
						}
						st := stream(o.Req)
						closedBefore, known := false, false
						if cf, ok := core.Field(st, "closed"); ok && cf.Kind() == reflect.Bool {
							closedBefore, known = cf.Bool(), true
						}
						calls := w.allocCalls
						st.Transaction(func(rb responseassembler.ResponseBuilder) error {
							rb.SendResponse(lnk, blk.RawData())
							return nil
						})
						if known && closedBefore && w.allocCalls > calls && len(sc.Threads) == 1 {
							// (one driver thread only: nobody else reserves between the two reads)
							w.violate("reservation-made-for-a-closed-response-stream", fmt.Sprintf("request %d's stream was already closed (an earlier message of it failed) when the next block transaction started, yet memory was reserved for it", o.Req))
						}
					case "skip":
						stream(o.Req).SkipFirstBlocks(int64(o.Size))
					case "ext":
						stream(o.Req).Transaction(func(rb responseassembler.ResponseBuilder) error {
							rb.SendExtensionData(graphsync.ExtensionData{Name: "x/test", Data: basicnode.NewBytes(make([]byte, o.Size))})
							return nil
						})
					case "fin":
						stream(o.Req).Transaction(func(rb responseassembler.ResponseBuilder) error {
							rb.FinishRequest()
							return nil
						})
					}
				}
				done <- struct{}{}
			}()
		}
		nGated := 0
		for _, t := range sc.Threads {
			for _, o := range t {
				if o.AtDial > 0 {
					nGated++
					break
				}
			}
		}
		for i := 0; i < len(sc.Threads)-nGated; i++ {
			<-done
		}
		if nGated > 0 {
			// a driver waiting for a dial that never came acts once everything else has settled
			vsched.Quiesce()
			for n, ch := range w.dialCh {
				if n > w.dials {
					close(ch)
				}
			}
			for i := 0; i < nGated; i++ {
				<-done
			}
		}
		close(w.release)
		vsched.Quiesce()
		// idle point: every driver finished, nothing enabled
		obs.allocIdle = w.alloc.AllocatedForPeer(mqPeer)
		obs.statsIdle = w.alloc.Stats()
		obs.stranded = strandedNow()
		obs.strandedLive = strandedLiveNow()
		obs.reservedNotBuilt = w.reservedNotBuilt
		obs.notBuiltSizes = append([]uint64(nil), w.reservedNotBuiltSizes...)
		atDeadlock = nil
		// balance the scenario's connects, then a final connect/disconnect pair:
		// after it no queue may be alive
		bal := 0
		if sc.PreConn {
			bal++
		}
		for _, t := range sc.Threads {
			for _, o := range t {
				if o.K == "C" {
					bal++
				} else if o.K == "D" {
					bal--
				}
			}
		}
		for ; bal > 0; bal-- {
			pmm.Disconnected(mqPeer)
		}
		pmm.Connected(mqPeer)
		pmm.Disconnected(mqPeer)
		vsched.Quiesce()
		obs.allocEnd = w.alloc.AllocatedForPeer(mqPeer)
		obs.queues = len(w.queues)
		for _, q := range w.queues {
			if !q.exited {
				obs.aliveAtEnd++
			}
		}
		obs.sent = append(obs.sent, w.sent...)
		obs.viol = append(obs.viol, w.viol...)
		obs.allocFail = w.allocFail
		obs.faults = w.faults
		obs.attachments = len(w.attaches)
		// C16: every attachment saw exactly one of Sent/Error
		causes := map[string]bool{}
		for _, a := range w.attaches {
			n := 0
			for _, e := range a.proxy.events {
				if e == "Sent" || e == "Error" {
					n++
				}
			}
			tf, _ := core.Field(a.builder, "topic")
			bi := w.binfo[a.builder]
			qid := 0
			if bi != nil {
				qid = bi.q.id
			}
			desc := fmt.Sprintf("%s on queue %d topic %d", a.proxy.name, qid, tf.Uint())
			if n > 1 {
				obs.duplicates = append(obs.duplicates, fmt.Sprintf("%s: reported %d times (%v)", desc, n, a.proxy.events))
			}
			if n >= 1 {
				continue
			}
			// an attachment scrubbed from its builder (another message of the request failed) is exempt
			if cur, ok := a.builder.Subscribers()[a.req]; !ok || cur != notifications.Subscriber(a.proxy) {
				continue
			}
			obs.unresolved = append(obs.unresolved, desc+": never reported")
			inQueue := false
			if bi != nil {
				if bf, ok := core.Field(bi.q.mq, "builders"); ok {
					for i := 0; i < bf.Len(); i++ {
						if b, ok := bf.Index(i).Interface().(*messagequeue.Builder); ok && b == a.builder {
							inQueue = true
						}
					}
				}
			}
			switch {
			case !inQueue:
				causes["message-was-extracted-for-sending"] = true
			case bi != nil && bi.busyAtBuild:
				// the queue's goroutine was still sending when the message was queued: its final drain came later
				causes["queued-before-the-final-drain"] = true
			case bi != nil && bi.deadAtBuild:
				causes["queued-into-shut-down-queue"] = true
			case bi != nil && bi.q.exited:
				causes["queue-exited-without-draining"] = true
			default:
				causes["queue-still-running"] = true
			}
		}
		var cl []string
		for c := range causes {
			cl = append(cl, c)
		}
		sort.Strings(cl)
		obs.unresCause = strings.Join(cl, "+")
		sort.Strings(obs.unresolved)
		sort.Strings(obs.duplicates)
	})
	obs.deadlock = s.Deadlock
	if s.Panic != nil {
		obs.panicked = fmt.Sprint(s.Panic)
	}
	if cfg.Verbose {
		for _, l := range s.Log {
			fmt.Println(l)
		}
		for _, t := range s.Threads() {
			fmt.Printf("thread %d %s done=%v op=%s blocked=%v\n", t.ID, t.Name, t.Done, t.Op, t.Blocked)
		}
	}
	return obs, s
}

type mqQueueWrap struct{ q *mqQueue }

func (w *mqQueueWrap) Startup() { w.q.mq.Startup() }
func (w *mqQueueWrap) Shutdown() {
	w.q.told = true
	w.q.mq.Shutdown()
}
func (w *mqQueueWrap) AllocateAndBuildMessage(size uint64, fn func(*messagequeue.Builder)) {
	var touched *mqBInfo
	w.q.mq.AllocateAndBuildMessage(size, func(b *messagequeue.Builder) {
		dead := w.q.told || w.q.exited || doneClosed(w.q.mq)
		bi := w.q.w.binfo[b]
		if bi == nil {
			bi = &mqBInfo{q: w.q}
			w.q.w.binfo[b] = bi
		}
		touched = bi
		bi.deadAtBuild = bi.deadAtBuild || dead
		before := core.DeepKey(b.Builder, core.DeepOpts{BytesAsLen: true, MaxDepth: 6})
		fn(b)
		if size > 0 && core.DeepKey(b.Builder, core.DeepOpts{BytesAsLen: true, MaxDepth: 6}) == before {
			w.q.w.reservedNotBuilt += size
			w.q.w.reservedNotBuiltSizes = append(w.q.w.reservedNotBuiltSizes, size)
		}
	})
	// the whole call (build and the work signal that follows it) finished while the queue's goroutine was
	// still inside a network call: its final drain comes later and must find the message
	if touched != nil && w.q.inNet > 0 {
		touched.busyAtBuild = true
	}
}

// order oracle: per driver thread, items leave in build order
func mqOrderViolation(sent []mqSent) string {
	last := map[string]int{}
	lastQ := map[string]int{}
	for _, m := range sent {
		lo := map[string]int{}
		hi := map[string]int{}
		for _, it := range m.Items {
			var t, n int
			if _, err := fmt.Sscanf(it, "t%d.%d", &t, &n); err != nil {
				continue
			}
			k := fmt.Sprint(t)
			if v, ok := lo[k]; !ok || n < v {
				lo[k] = n
			}
			if v, ok := hi[k]; !ok || n > v {
				hi[k] = n
			}
		}
		for k, l := range lo {
			if prev, ok := last[k]; ok && l < prev {
				kind := "within-one-queue"
				if m.Queue != lastQ[k] {
					kind = "older-queue-still-sending-after-disconnect"
					if m.Queue > lastQ[k] {
						kind = "across-queues"
					}
				}
				return fmt.Sprintf("%s|thread %s: item %d left (queue %d) after item %d (queue %d)", kind, k, l, m.Queue, prev, lastQ[k])
			}
		}
		for k, h := range hi {
			if h > last[k] {
				last[k] = h
				lastQ[k] = m.Queue
			}
		}
	}
	return ""
}

func (o *mqObs) summary() string {
	var parts []string
	for _, m := range o.sent {
		parts = append(parts, fmt.Sprintf("q%d{%s}", m.Queue, strings.Join(m.Items, ",")))
	}
	return fmt.Sprintf("queues=%d alive=%d faults=%d sent=[%s] idleAlloc=%d unresolved=%d", o.queues, o.aliveAtEnd, o.faults, strings.Join(parts, " "), o.allocIdle, len(o.unresolved))
}

// mqJudge maps an observation to a violation of the given property.
func mqJudge(id string, sc mqScenario, o *mqObs) *core.Violation {
	mk := func(sig, what string) *core.Violation {
		return &core.Violation{Signature: sig, What: fmt.Sprintf("%s: %s; %s", sc, what, o.summary()), Replay: sc}
	}
	if o.panicked != "" {
		return mk("panic", o.panicked)
	}
	if o.deadlock {
		sig := "driver-blocked-forever"
		if id == "C15" || id == "C16" {
			switch {
			case o.stranded > 0:
				sig += "/memory-held-by-data-stranded-in-shut-down-queue"
			case o.reservedNotBuilt > 0:
				sig += "/memory-held-by-reservation-never-built"
			case o.allocIdle > 0:
				sig += "/memory-never-released"
			}
		}
		return mk(sig, fmt.Sprintf("no thread enabled before the scenario finished: a driver waits forever (allocated=%d pending=%d stranded builders=%d reserved-not-built=%d)", o.allocIdle, o.statsIdle.TotalPendingAllocations, o.stranded, o.reservedNotBuilt))
	}
	switch id {
	case "C17":
		for _, v := range o.viol {
			if strings.HasPrefix(v, "accounted-less-than-unsent|") || strings.HasPrefix(v, "reservation-made-for-a-closed-response-stream|") {
				continue // C15's invariants
			}
			p := strings.SplitN(v, "|", 2)
			return mk(p[0], p[1])
		}
		if o.aliveAtEnd > 0 {
			return mk("queue-alive-after-last-disconnect", fmt.Sprintf("%d of %d queue goroutines still alive after the final Connected/Disconnected pair and quiescence", o.aliveAtEnd, o.queues))
		}
		if ov := mqOrderViolation(o.sent); ov != "" {
			p := strings.SplitN(ov, "|", 2)
			return mk("out-of-order/"+p[0], p[1])
		}
	case "C16":
		if o.strandedLive > 0 {
			return mk("never-reported/message-stranded-in-a-live-idle-queue", fmt.Sprintf("at the idle point (every driver done, nothing enabled) %d non-empty message(s) sit in a queue that is alive and not sending", o.strandedLive))
		}
		if len(o.unresolved) > 0 {
			cause := "message-left-in-shut-down-queue"
			if strings.Contains(o.unresCause, "queue-still-running") || o.unresCause == "" {
				cause = "queue-still-running"
			}
			if strings.Contains(o.unresCause, "message-was-extracted-for-sending") {
				cause = "message-was-extracted-for-sending"
			}
			if strings.Contains(o.unresCause, "queued-before-the-final-drain") {
				cause = "message-queued-while-the-queue-was-still-sending"
			}
			return mk("never-reported/"+cause, strings.Join(o.unresolved, "; ")+" ("+o.unresCause+")")
		}
		if len(o.duplicates) > 0 {
			return mk("reported-twice", strings.Join(o.duplicates, "; "))
		}
	case "C15":
		for _, v := range o.viol {
			if strings.HasPrefix(v, "accounted-less-than-unsent|") || strings.HasPrefix(v, "reservation-made-for-a-closed-response-stream|") {
				p := strings.SplitN(v, "|", 2)
				return mk(p[0], p[1])
			}
		}
		if o.allocFail > 0 {
			return mk("queued-without-successful-reservation", fmt.Sprintf("%d reservation(s) resolved with an error but the data was still queued", o.allocFail))
		}
		if o.allocIdle != 0 || o.statsIdle.TotalAllocatedAllPeers != 0 || o.statsIdle.TotalPendingAllocations != 0 {
			ext := false
			for _, t := range sc.Threads {
				for _, op := range t {
					ext = ext || op.K == "ext"
				}
			}
			sig := "phantom-memory-at-idle"
			if o.stranded > 0 {
				sig = "phantom-memory-at-idle/data-stranded-in-shut-down-queue"
			} else if o.reservedNotBuilt > 0 && subsetSum(o.notBuiltSizes, o.allocIdle) {
				// what is still held is exactly some of the reservations that were never built (a queue that exits
				// releases the peer's whole account, which may have returned the others)
				sig = "phantom-memory-at-idle/reservation-never-built"
			} else if ext {
				sig = "phantom-memory-at-idle/extension-bytes"
			}
			return mk(sig, fmt.Sprintf("queue idle but AllocatedForPeer=%d, total=%d, pending=%d (stranded builders=%d, reserved-not-built=%d)", o.allocIdle, o.statsIdle.TotalAllocatedAllPeers, o.statsIdle.TotalPendingAllocations, o.stranded, o.reservedNotBuilt))
		}
	}
	return nil
}

func mqExplore(c *core.Ctx, id string, scs []mqScenario, bound int, cost core.CostModel) {
	for i, sc := range scs {
		sc := sc
		if c.Expired() {
			c.Res.Exhaustive = false
			return
		}
		_ = i
		b := bound
		if sc.Bound > 0 {
			b = sc.Bound
		}
		t0 := time.Now()
		c.Explore(core.ExploreOpts{MaxBound: b, Cost: cost, Label: sc.Name}, func(cfg vsched.Config) core.Exec {
			o, s := mqRun(cfg, sc)
			return core.Exec{Sched: s, Outcome: sc.Name + ": " + o.summary(), Viol: mqJudge(id, sc, o)}
		})
		c.Sample(sc.String())
		c.Count("ms:"+sc.Name, time.Since(t0).Milliseconds())
	}
}

// ---- scenario catalogues and registration

func mqScenariosC17(thorough bool) []mqScenario {
	req := mqOp{K: "req"}
	scs := []mqScenario{
		{Name: "C17.cd-vs-2req", Threads: [][]mqOp{{{K: "C"}, {K: "D"}}, {req, req}}, Retries: 1, Bound: 3},
		{Name: "C17.cdcd-vs-2req", Threads: [][]mqOp{{{K: "C"}, {K: "D"}, {K: "C"}, {K: "D"}}, {req, req}}, Retries: 1},
		{Name: "C17.pre-d-vs-3req-faults", Threads: [][]mqOp{{{K: "D"}}, {req, req, req}}, Retries: 1, PreConn: true, Faults: true, MaxFaults: 2},
		{Name: "C17.cd-vs-req-vs-req", Threads: [][]mqOp{{{K: "C"}, {K: "D"}}, {req, req}, {req}}, Retries: 1},
		{Name: "C17.ccdd-vs-2req-faults", Threads: [][]mqOp{{{K: "C"}, {K: "C"}, {K: "D"}, {K: "D"}}, {req, req}}, Retries: 2, Faults: true, MaxFaults: 2},
		// several builders pile up behind a stalled first send that then fails: what is left must still leave in build order
		{Name: "C17.held-first-send-fails-4-builders", Threads: [][]mqOp{{{K: "blk", Req: 1, Size: 300 * 1024}, {K: "Q"}, {K: "blk", Req: 1, Size: 300 * 1024}, {K: "blk", Req: 2, Size: 300 * 1024}, {K: "blk", Req: 3, Size: 300 * 1024}}}, Retries: 1, Faults: true, MaxFaults: 1, PreConn: true, Hold: true},
		// behind a stalled send: a builder with room left, a second builder, then a small block
		{Name: "C17.held-send-300k-400k-100k", Threads: [][]mqOp{{{K: "blk", Req: 1, Size: 10}, {K: "Q"}, {K: "blk", Req: 2, Size: 300 * 1024}, {K: "blk", Req: 3, Size: 400 * 1024}, {K: "blk", Req: 4, Size: 100 * 1024}, {K: "blk", Req: 5, Size: 50 * 1024}}}, Retries: 1, PreConn: true, Hold: true},
		{Name: "C17.held-send-mixed-sizes-faults", Threads: [][]mqOp{{{K: "blk", Req: 1, Size: 10}, {K: "Q"}, {K: "blk", Req: 2, Size: 200 * 1024}, {K: "blk", Req: 3, Size: 350 * 1024}, {K: "blk", Req: 2, Size: 100 * 1024}, {K: "blk", Req: 4, Size: 450 * 1024}, {K: "blk", Req: 3, Size: 60 * 1024}}}, Retries: 1, Faults: true, MaxFaults: 1, PreConn: true, Hold: true},
		{Name: "C17.held-first-send-fails-5-builders", Threads: [][]mqOp{{{K: "blk", Req: 1, Size: 300 * 1024}, {K: "Q"}, {K: "blk", Req: 2, Size: 300 * 1024}, {K: "blk", Req: 1, Size: 300 * 1024}, {K: "blk", Req: 3, Size: 300 * 1024}, {K: "blk", Req: 4, Size: 300 * 1024}}}, Retries: 1, Faults: true, MaxFaults: 1, PreConn: true, Hold: true},
	}
	// every single-threaded operation sequence over {Connected, Disconnected, send} up to
	// length 4 (length 5 thorough), with connect/send failures as environment choices
	maxLen := 4
	if thorough {
		maxLen = 5
	}
	var gen func(prefix []mqOp, name string)
	gen = func(prefix []mqOp, name string) {
		if len(prefix) > 0 {
			hasReq := false
			for _, o := range prefix {
				hasReq = hasReq || o.K == "req"
			}
			scs = append(scs, mqScenario{Name: "C17.seq." + name, Threads: [][]mqOp{append([]mqOp{}, prefix...)}, Retries: 1, Faults: hasReq, MaxFaults: 2, Bound: 2})
		}
		if len(prefix) == maxLen {
			return
		}
		open := 0
		for _, o := range prefix {
			if o.K == "C" {
				open++
			} else if o.K == "D" {
				open--
			}
		}
		for _, o := range []mqOp{{K: "C"}, {K: "D"}, req} {
			if o.K == "D" && open == 0 {
				continue // a Disconnected notification only follows a Connected one
			}
			gen(append(append([]mqOp{}, prefix...), o), name+o.K[:1])
		}
	}
	gen(nil, "")
	if thorough {
		scs = append(scs,
			mqScenario{Name: "C17.cdc-vs-3req-faults", Threads: [][]mqOp{{{K: "C"}, {K: "D"}, {K: "C"}}, {req, req, req}}, Retries: 1, Faults: true, MaxFaults: 2},
			mqScenario{Name: "C17.dcd-pre-vs-2req-vs-2req", Threads: [][]mqOp{{{K: "D"}, {K: "C"}, {K: "D"}}, {req, req}, {req, req}}, Retries: 1, PreConn: true},
		)
	}
	return scs
}

func mqScenariosC16(thorough bool) []mqScenario {
	req := mqOp{K: "req"}
	blk := func(r, s int) mqOp { return mqOp{K: "blk", Req: r, Size: s} }
	fin := func(r int) mqOp { return mqOp{K: "fin", Req: r} }
	scs := []mqScenario{
		{Name: "C16.2req-faults", Threads: [][]mqOp{{req, req}}, Retries: 2, Faults: true, MaxFaults: 3, PreConn: true},
		{Name: "C16.resp-faults", Threads: [][]mqOp{{blk(1, 10), blk(1, 10), fin(1)}}, Retries: 1, Faults: true, MaxFaults: 2, PreConn: true},
		{Name: "C16.d-vs-2req", Threads: [][]mqOp{{{K: "D"}}, {req, req}}, Retries: 1, PreConn: true, Bound: 3},
		{Name: "C16.d-vs-resp-faults", Threads: [][]mqOp{{{K: "D"}}, {blk(1, 10), fin(1)}}, Retries: 1, PreConn: true, Faults: true, MaxFaults: 1},
		{Name: "C16.req-vs-d-faults", Threads: [][]mqOp{{req, req}, {{K: "D"}}}, Retries: 1, PreConn: true, Faults: true, MaxFaults: 1, Bound: 3},
		{Name: "C16.resp-vs-d-faults", Threads: [][]mqOp{{blk(1, 10), fin(1)}, {{K: "D"}}}, Retries: 2, PreConn: true, Faults: true, MaxFaults: 2},
		{Name: "C16.2resp-2threads-faults", Threads: [][]mqOp{{blk(1, 10), fin(1)}, {blk(2, 10), fin(2)}}, Retries: 1, Faults: true, MaxFaults: 2, PreConn: true},
		// an empty builder at the head of the queue with a full-size builder behind it
		{Name: "C16.noop-then-big-block", Threads: [][]mqOp{{{K: "noop"}, blk(1, 600*1024), fin(1)}}, Retries: 1, PreConn: true},
		{Name: "C16.noop-then-big-block-2threads", Threads: [][]mqOp{{{K: "noop"}, blk(1, 600*1024)}, {{K: "noop"}, blk(2, 600*1024)}}, Retries: 1, PreConn: true, Faults: true, MaxFaults: 1},
		// the disconnect lands while the queue re-dials after a failed send
		{Name: "C16.resp-vs-d-at-redial-faults", Threads: [][]mqOp{{blk(1, 10), fin(1)}, {{K: "D", AtDial: 2}}}, Retries: 2, PreConn: true, Faults: true, MaxFaults: 1},
		{Name: "C16.req-vs-d-at-redial-faults", Threads: [][]mqOp{{req, req}, {{K: "D", AtDial: 2}}}, Retries: 3, PreConn: true, Faults: true, MaxFaults: 2},
		{Name: "C16.resp-vs-d-at-first-dial", Threads: [][]mqOp{{blk(1, 10), fin(1)}, {{K: "D", AtDial: 1}}}, Retries: 2, PreConn: true, Faults: true, MaxFaults: 1},
	}
	if thorough {
		scs = append(scs,
			mqScenario{Name: "C16.cd-vs-resp-vs-req-faults", Threads: [][]mqOp{{{K: "C"}, {K: "D"}}, {blk(1, 10), blk(1, 10), fin(1)}, {req, req}}, Retries: 2, Faults: true, MaxFaults: 2},
		)
	}
	return scs
}

func mqScenariosC15(thorough bool) []mqScenario {
	blk := func(r, s int) mqOp { return mqOp{K: "blk", Req: r, Size: s} }
	ext := func(r, s int) mqOp { return mqOp{K: "ext", Req: r, Size: s} }
	fin := func(r int) mqOp { return mqOp{K: "fin", Req: r} }
	const big = 300 * 1024
	scs := []mqScenario{
		{Name: "C15.blocks-faults", Threads: [][]mqOp{{blk(1, 10), blk(1, 20), fin(1)}}, Retries: 2, Faults: true, MaxFaults: 3, PreConn: true},
		{Name: "C15.two-builders-faults", Threads: [][]mqOp{{blk(1, big), blk(1, big), fin(1)}}, Retries: 1, Faults: true, MaxFaults: 2, PreConn: true},
		{Name: "C15.two-requests-faults", Threads: [][]mqOp{{blk(1, 10), blk(2, 20), blk(1, big), blk(2, big), fin(1), fin(2)}}, Retries: 1, Faults: true, MaxFaults: 2, PreConn: true},
		{Name: "C15.held-first-send-fails-3-builders", Threads: [][]mqOp{{blk(1, 10), {K: "Q"}, blk(2, 20), blk(1, big), blk(2, big), fin(1), fin(2)}}, Retries: 1, Faults: true, MaxFaults: 1, PreConn: true, Hold: true},
		{Name: "C15.same-block-two-requests", Threads: [][]mqOp{{{K: "blk", Req: 1, Size: 10, Same: true}, fin(1), {K: "blk", Req: 2, Size: 10, Same: true}, fin(2)}}, Retries: 1, PreConn: true, Faults: true, MaxFaults: 1},
		// blocks traversed but not transmitted (de-duplicated against another request, repeated within a request,
		// inside the skipped first blocks) reserve nothing
		{Name: "C15.deduplicated-blocks", Threads: [][]mqOp{{{K: "blk", Req: 1, Size: 1000, Same: true}, {K: "blk", Req: 2, Size: 1000, Same: true}, {K: "blk", Req: 1, Size: 1000, Same: true}, fin(1), fin(2)}}, Retries: 1, PreConn: true, Faults: true, MaxFaults: 1},
		{Name: "C15.skipped-first-blocks", Threads: [][]mqOp{{{K: "skip", Req: 1, Size: 2}, blk(1, 1000), blk(1, 2000), blk(1, 10), fin(1)}}, Retries: 1, PreConn: true, Faults: true, MaxFaults: 1},
		{Name: "C15.extension", Threads: [][]mqOp{{ext(1, 16), blk(1, 10), fin(1)}}, Retries: 1, PreConn: true},
		{Name: "C15.concurrent-requests-faults", Threads: [][]mqOp{{blk(1, 10), blk(1, big), fin(1)}, {blk(2, 10), blk(2, big), fin(2)}}, Retries: 1, Faults: true, MaxFaults: 2, PreConn: true},
		{Name: "C15.small-allowance-d", Threads: [][]mqOp{{{K: "D"}}, {blk(1, 10), blk(1, 10), blk(1, 10)}}, Retries: 1, PreConn: true, PerPeer: 15},
	}
	if thorough {
		scs = append(scs,
			mqScenario{Name: "C15.small-allowance-faults", Threads: [][]mqOp{{blk(1, 10), blk(1, 10), blk(2, 10), fin(1), fin(2)}}, Retries: 2, Faults: true, MaxFaults: 3, PreConn: true, PerPeer: 25},
		)
	}
	return scs
}

func init() {
	assume := []string{"data-race freedom between scheduling points (checked separately by the free-running -race pass)", "vsched's model of Go channel/mutex/cond semantics (DESIGN 3.2)", "one canonical map iteration order", "fake MessageNetwork: faults only where chosen"}
	mk := func(id, rule string, scs func(bool) []mqScenario, qb, tb int, cost core.CostModel) {
		core.Register(&core.Prop{ID: id, Level: "model_checking", Rule: rule, Assumptions: assume, QuickBudget: 200, ThoroughBudget: 1500,
			Run: func(c *core.Ctx) {
				b := qb
				if c.Thorough() {
					b = tb
				}
				mqExplore(c, id, scs(c.Thorough()), b, cost)
			},
			Replay: func(raw json.RawMessage) string {
				var r struct {
					Prefix []int      `json:"prefix"`
					Case   mqScenario `json:"case"`
				}
				if err := json.Unmarshal(raw, &r); err != nil {
					return err.Error()
				}
				o, _ := mqRun(vsched.Config{Prefix: r.Prefix, Verbose: os.Getenv("VERIF_VERBOSE") != ""}, r.Case)
				if v := mqJudge(id, r.Case, o); v != nil {
					return v.Signature + ": " + v.What
				}
				return "ok"
			}})
	}
	mk("C17", "stateless DFS over all schedules within the deviation bound (every non-default scheduling decision or injected connect/send failure costs 1) of driver threads doing Connected/Disconnected and numbered sends against the real PeerMessageManager+MessageQueue; a class is a distinct (queues created, alive at end, faults, wire message sequence) observation", mqScenariosC17, 2, 3, core.Deviation)
	mk("C16", "stateless DFS over all schedules and fault placements within the deviation bound of response transactions and request sends through the real ResponseAssembler/PeerMessageManager/MessageQueue/notifications publisher; oracle: every (builder, subscriber) attachment sees exactly one Sent or Error; a class is a distinct wire/fault/unresolved observation", mqScenariosC16, 2, 3, core.Deviation)
	mk("C15", "stateless DFS over all schedules and fault placements within the deviation bound of response transactions (small blocks, 300KiB blocks forcing several builders, extension data, finish) through the real assembler/queue/allocator; oracle: at the idle point (connection up, nothing queued) the peer's accounted memory is zero and no reservation failed before data was queued; a class is a distinct wire/fault/accounting observation", mqScenariosC15, 2, 3, core.Deviation)
}

// subsetSum: is want the sum of some of the sizes?
func subsetSum(sizes []uint64, want uint64) bool {
	if want == 0 {
		return true
	}
	for i, x := range sizes {
		if x <= want && subsetSum(sizes[i+1:], want-x) {
			return true
		}
	}
	return false
}
