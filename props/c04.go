package props

import (
	"context"
	"encoding/json"
	"errors"
	"fmt"
	"strings"

	blocks "github.com/ipfs/go-block-format"
	"github.com/ipfs/go-cid"
	"github.com/ipfs/go-graphsync"
	gsimpl "github.com/ipfs/go-graphsync/impl"
	gsmsg "github.com/ipfs/go-graphsync/message"
	"github.com/ipfs/go-graphsync/zzverif/vsched"
	cidlink "github.com/ipld/go-ipld-prime/linking/cid"
	"github.com/libp2p/go-libp2p/core/peer"

	"verif/core"
	"verif/harness"
)

// C04: every request's result channels terminate with the right outcome
// (DESIGN 6 C04). Requestor world: real requestor Q, scripted responder S that
// plays a fixed list of response messages, reader thread on both channels.

type reqCase struct {
	Status   graphsync.ResponseStatusCode `json:"terminal_status"` // 0: the responder never sends one
	TPos     int                          `json:"terminal_after_blocks"`
	Local    int                          `json:"local_prefix"`   // leading blocks already in the requestor's store
	Acts     []rspAct                     `json:"acts,omitempty"` // ctx-cancel api-cancel api-pause api-unpause; Pos counts responder messages delivered
	Keep     bool                         `json:"responder_keeps_sending_after_cancel"`
	BlockErr int                          `json:"block_hook_error_at,omitempty"`
	RespErr  int                          `json:"response_hook_error_at,omitempty"`
	FailSend []int                        `json:"fail_sends,omitempty"`
	Sched    bool                         `json:"schedule_level,omitempty"`
}

func (c reqCase) String() string {
	var a []string
	for _, x := range c.Acts {
		a = append(a, fmt.Sprintf("%s@%d", x.K, x.Pos))
	}
	s := fmt.Sprintf("responder sends %d block message(s) then status %s; requestor holds %d leading block(s); caller actions [%s]", c.TPos, c.Status, c.Local, strings.Join(a, " "))
	if c.Keep {
		s += "; responder keeps sending after a cancel"
	}
	if c.BlockErr > 0 {
		s += fmt.Sprintf("; block hook fails at block %d", c.BlockErr)
	}
	if c.RespErr > 0 {
		s += fmt.Sprintf("; response hook fails at response %d", c.RespErr)
	}
	if len(c.FailSend) > 0 {
		s += fmt.Sprintf("; requestor's sends %v fail", c.FailSend)
	}
	return s
}

type reqObs struct {
	errs           []string
	visits         int
	closed         bool
	pausedAtEnd    bool
	cancelOnWire   bool
	newOnWire      bool
	responderDone  bool
	wireReqs       []string
	fullVisits     bool
	cancelIssued   bool
	cancelWhenDone bool // the request had already terminated when the caller cancelled
	termDelivered  bool // a terminal status reached the requestor while the request was live
	termFirst      bool // ... before any caller cancel
	afterClose     int
	trace          []string
	panicked       string
	deadlock       bool
	stateLeft      string
	queueLeft      []string
	diag           []string
	stats          string
	apiErrs        []string
	registered     bool // the request manager ran the outgoing-request hooks for it (it accepted the request)
}

func reqRun(cfg vsched.Config, cs reqCase) (*reqObs, *vsched.Sched) {
	o := &reqObs{}
	sh := harness.Shape{Name: "chain3", Blocks: []harness.BlockSpec{{Edges: []harness.Edge{{To: 1}}}, {Edges: []harness.Edge{{To: 2, Form: harness.Inline}}}, {}}}
	d := harness.Build(sh, "c04")
	sel := harness.RecAll(10)
	s := vsched.Run(cfg, func() {
		f := harness.NewFixture(!cs.Sched)
		qs := harness.NewStore()
		for i := 0; i < cs.Local; i++ {
			qs.Put(d.Links[i], d.Data[i])
		}
		q := f.AddNode(peer.ID("Q"), qs, gsimpl.MessageSendRetries(1))
		sp := f.AddScript(peer.ID("S"))
		gsq := q.GS.(*gsimpl.GraphSync)
		id := harness.MkID(1)
		fails := map[int]bool{}
		for _, k := range cs.FailSend {
			fails[k] = true
		}
		f.Net.SendFault = func(from, to peer.ID, k int, m gsmsg.GraphSyncMessage) harness.FaultAction {
			if from == q.ID && fails[k] {
				return harness.SendFail
			}
			return harness.SendOK
		}
		nb, nr := 0, 0
		q.GS.RegisterIncomingBlockHook(func(p peer.ID, r graphsync.ResponseData, b graphsync.BlockData, ha graphsync.IncomingBlockHookActions) {
			nb++
			if nb == cs.BlockErr {
				ha.TerminateWithError(errors.New("block hook refuses"))
			}
		})
		q.GS.RegisterIncomingResponseHook(func(p peer.ID, r graphsync.ResponseData, ha graphsync.IncomingResponseHookActions) {
			nr++
			if nr == cs.RespErr {
				ha.TerminateWithError(errors.New("response hook refuses"))
			}
		})
		// the responder's script
		var script []gsmsg.GraphSyncMessage
		mk := func(st graphsync.ResponseStatusCode, blk int) gsmsg.GraphSyncMessage {
			var md []gsmsg.GraphSyncLinkMetadatum
			bl := map[cid.Cid]blocks.Block{}
			if blk >= 0 {
				c := d.Links[blk].(cidlink.Link).Cid
				md = append(md, gsmsg.GraphSyncLinkMetadatum{Link: c, Action: graphsync.LinkActionPresent})
				b, _ := blocks.NewBlockWithCid(d.Data[blk], c)
				bl[c] = b
			}
			return gsmsg.NewMessage(nil, map[graphsync.RequestID]gsmsg.GraphSyncResponse{id: gsmsg.NewResponse(id, st, md)}, bl)
		}
		first := cs.Local // the requestor asks the responder to skip what it holds
		for i := 0; i < cs.TPos && first+i < 3; i++ {
			last := first+i == 2 && cs.Status == graphsync.RequestCompletedFull
			st := graphsync.PartialResponse
			if last {
				st = graphsync.RequestCompletedFull
			}
			m := mk(st, first+i)
			if i == 0 && first > 0 {
				// like a real responder: metadata lists the skipped leading links too, without their blocks
				var md []gsmsg.GraphSyncLinkMetadatum
				for k := 0; k <= first; k++ {
					md = append(md, gsmsg.GraphSyncLinkMetadatum{Link: d.Links[k].(cidlink.Link).Cid, Action: graphsync.LinkActionPresent})
				}
				bl := map[cid.Cid]blocks.Block{}
				for _, b := range m.Blocks() {
					bl[b.Cid()] = b
				}
				m = gsmsg.NewMessage(nil, map[graphsync.RequestID]gsmsg.GraphSyncResponse{id: gsmsg.NewResponse(id, st, md)}, bl)
			}
			script = append(script, m)
		}
		if cs.Status != 0 && !(cs.Status == graphsync.RequestCompletedFull && cs.TPos > 0 && first+cs.TPos-1 >= 2) {
			script = append(script, mk(cs.Status, -1))
		}
		sent := 0
		gotReq, gotCancel := false, false
		sp.Script = func(from peer.ID, m gsmsg.GraphSyncMessage) {
			for _, rq := range m.Requests() {
				if rq.ID() != id {
					continue
				}
				switch rq.Type() {
				case graphsync.RequestTypeNew:
					gotReq = true
				case graphsync.RequestTypeCancel:
					gotCancel = true
					o.cancelOnWire = true
				}
			}
		}
		vsched.Quiesce()
		vsched.Mark()
		// a cancellation that may land while the request call itself is in progress: its thread exists before the call
		rctx, rcancel := context.WithCancel(f.Ctx)
		q.GS.RegisterOutgoingRequestHook(func(p peer.ID, rd graphsync.RequestData, ha graphsync.OutgoingRequestHookActions) {
			o.registered = true
		})
		if cs.Sched {
			for _, a := range cs.Acts {
				if a.K == "ctx-cancel-early" {
					vsched.GoN("act-"+a.K, func() {
						o.cancelIssued = true
						rcancel()
					})
				}
			}
		}
		res := q.RequestCtx(rctx, rcancel, sp.ID, d.Root, sel, id)
		doAct := func(a rspAct) {
			var err error
			switch a.K {
			case "ctx-cancel":
				o.responderDone = sent == len(script) && cs.Status != 0
				o.cancelIssued = true
				o.cancelWhenDone = res.Closed()
				res.Cancel()
			case "api-cancel":
				o.responderDone = sent == len(script) && cs.Status != 0
				o.cancelIssued = true
				o.cancelWhenDone = res.Closed()
				err = q.GS.Cancel(context.Background(), id)
			case "api-pause":
				err = q.GS.Pause(context.Background(), id)
			case "api-unpause":
				err = q.GS.Unpause(context.Background(), id)
				if err == nil {
					// a new incarnation of the request starts; the scripted responder does not answer it
					o.termDelivered, o.termFirst = false, false
				}
			}
			if err != nil {
				o.apiErrs = append(o.apiErrs, a.K+": "+err.Error())
			}
		}
		respond := func() {
			m := script[sent]
			sent++
			for _, r := range m.Responses() {
				if r.Status().IsTerminal() && !res.Closed() {
					o.termDelivered = true
					if !o.cancelIssued {
						o.termFirst = true
					}
				}
			}
			sp.Say(q.ID, m)
		}
		if cs.Sched {
			sp.Script = func(from peer.ID, m gsmsg.GraphSyncMessage) {
				for _, rq := range m.Requests() {
					if rq.ID() == id && rq.Type() == graphsync.RequestTypeCancel {
						o.cancelOnWire = true
						gotCancel = true
					}
					if rq.ID() == id && rq.Type() == graphsync.RequestTypeNew && !gotReq {
						gotReq = true
						for sent < len(script) && (cs.Keep || !gotCancel) {
							respond()
						}
					}
				}
			}
			for _, a := range cs.Acts {
				a := a
				if a.K != "ctx-cancel-early" {
					vsched.GoN("act-"+a.K, func() { doAct(a) })
				}
			}
			vsched.Quiesce()
		} else {
			vsched.Quiesce()
			next := 0
			delivered := 0 // responder messages delivered to Q
			evs := []*harness.Event{
				{Name: "act", Enabled: func() bool { return next < len(cs.Acts) && delivered >= cs.Acts[next].Pos }, Do: func() { a := cs.Acts[next]; next++; doAct(a) }},
				{Name: "deliver Q->S", Enabled: func() bool { return f.Net.Node(sp.ID).Pending(q.ID) > 0 }, Do: func() { f.Net.Node(sp.ID).DeliverNext(q.ID) }},
				{Name: "respond", Enabled: func() bool { return gotReq && sent < len(script) && (cs.Keep || !gotCancel) }, Do: func() {
					respond()
					f.Net.Node(q.ID).DeliverNext(sp.ID)
					delivered++
				}},
			}
			for step := 0; step < 100; step++ {
				var en *harness.Event
				for _, e := range evs {
					if e.Enabled() {
						en = e
						break
					}
				}
				if en == nil {
					// actions placed beyond the last responder message still happen
					if next < len(cs.Acts) {
						delivered = 1 << 20
						continue
					}
					break
				}
				o.trace = append(o.trace, en.Name)
				en.Do()
				vsched.Quiesce()
				for pid, ds := range map[string]map[graphsync.RequestID][]string{"outgoing": gsq.PeerState(sp.ID).OutgoingState.Diagnostics()} {
					for rid, d := range ds {
						o.diag = append(o.diag, fmt.Sprintf("%s %s: %s", pid, harness.ShortID(rid), strings.Join(d, "; ")))
					}
				}
			}
		}
		newSeen := false
		o.cancelOnWire = false
		o.newOnWire = false
		for _, w := range f.Net.Wire {
			if w.From != q.ID {
				continue
			}
			for _, rq := range w.Msg.Requests() {
				if rq.ID() == id {
					o.wireReqs = append(o.wireReqs, string(rq.Type()))
				}
				if rq.ID() == id && rq.Type() == graphsync.RequestTypeNew {
					newSeen = true
					o.newOnWire = true
				}
				if rq.ID() == id && rq.Type() == graphsync.RequestTypeCancel && newSeen {
					o.cancelOnWire = true
				}
			}
		}
		o.errs = res.ErrStrings(d)
		o.visits = len(res.Visits)
		o.fullVisits = o.visits == 7 // the whole 3-block chain was delivered: a later failure status is moot
		o.closed = res.Closed()
		o.afterClose = res.AfterClose
		ps := gsq.PeerState(sp.ID).OutgoingState
		if st, ok := ps.RequestStates[id]; ok {
			o.stateLeft = st.String()
			o.pausedAtEnd = st == graphsync.Paused
		}
		for _, t := range ps.TaskQueueState.Active {
			o.queueLeft = append(o.queueLeft, "active:"+harness.ShortID(t))
		}
		for _, t := range ps.TaskQueueState.Pending {
			o.queueLeft = append(o.queueLeft, "pending:"+harness.ShortID(t))
		}
		st := q.GS.Stats()
		o.stats = fmt.Sprintf("active=%d pending=%d", st.OutgoingRequests.Active, st.OutgoingRequests.Pending)
		f.Cancel()
	})
	o.deadlock = s.Deadlock
	if s.Panic != nil {
		o.panicked = fmt.Sprint(s.Panic) + " | " + firstLines(s.PanicStack, 6)
	}
	return o, s
}

func c04Judge(cs reqCase, o *reqObs) *core.Violation {
	v := func(sig, what string) *core.Violation {
		return &core.Violation{Signature: sig, What: fmt.Sprintf("%s (events: %s): %s", cs, strings.Join(o.trace, ","), what), Replay: cs}
	}
	if o.panicked != "" {
		if strings.Contains(o.panicked, "closed channel") {
			return v("send-on-closed-result-channel", o.panicked)
		}
		return v("panic", o.panicked)
	}
	if o.afterClose > 0 {
		return v("delivery-after-close", fmt.Sprintf("%d deliveries after a channel was closed", o.afterClose))
	}
	has := func(k string) bool {
		for _, e := range o.errs {
			if e == k || strings.HasPrefix(e, k) {
				return true
			}
		}
		return false
	}
	if o.cancelIssued && !o.registered {
		// the caller's context was done before the request manager accepted the request: there is no request,
		// only the two (closed) channels
		if !o.closed || o.newOnWire {
			return v("cancelled-before-acceptance-yet-live", fmt.Sprintf("the context was cancelled before the request was accepted, yet closed=%v and requests on the wire %v", o.closed, o.wireReqs))
		}
		return nil
	}
	mustClose := (o.termDelivered || (o.cancelIssued && !o.cancelWhenDone)) && !o.pausedAtEnd
	if mustClose && !o.closed {
		why := "a terminal status was delivered"
		if o.cancelIssued {
			why = "the caller cancelled"
		}
		kind := "terminal-status"
		if o.cancelIssued {
			kind = "caller-cancel"
		}
		return v("channels-never-closed/after-"+kind, fmt.Sprintf("%s but the result channels are still open at final quiescence; errors so far %v, %d nodes delivered, request state %q", why, o.errs, o.visits, o.stateLeft))
	}
	if o.cancelIssued && !o.cancelWhenDone && !o.termFirst {
		if !has("client-cancelled") {
			return v("caller-cancel-without-client-cancelled-error", fmt.Sprintf("errors %v", o.errs))
		}
		// once the responder has sent its terminal status there is nothing left to cancel
		// (also when the cancellation took effect in the requestor only after the exchange had run to its terminal status)
		late := len(o.wireReqs) == 1 && o.termDelivered
		if o.newOnWire && !o.cancelOnWire && len(cs.FailSend) == 0 && !o.responderDone && !late {
			sig := "caller-cancel-not-sent-to-responder"
			if len(o.wireReqs) > 0 && o.wireReqs[0] == "Cancel" {
				sig = "caller-cancel-overtaken-by-the-request/cancel-sent-before-the-request-it-cancels"
			} else if cs.Sched {
				// same race, both requests in one outgoing message: the builder keeps one request per id and the
				// New request (added last) replaces the Cancel
				sig = "caller-cancel-overtaken-by-the-request/cancel-replaced-by-the-request-in-the-same-message"
			}
			return v(sig, fmt.Sprintf("the request went out to the responder but no cancel for its id followed it; requests on the wire in order: %v", o.wireReqs))
		}
	}
	if o.termFirst && cs.Status.IsFailure() && o.closed && cs.BlockErr == 0 && cs.RespErr == 0 && !o.fullVisits {
		want := harness.ClassifyErr(cs.Status.AsError(), nil)
		if len(o.errs) == 0 || o.errs[len(o.errs)-1] != want {
			return v("failure-status-without-matching-terminal-error", fmt.Sprintf("responder's status %s, errors delivered %v (expected last: %s)", cs.Status, o.errs, want))
		}
	}
	if (cs.BlockErr > 0 || cs.RespErr > 0) && !o.closed && !o.pausedAtEnd && (nbReached(cs, o)) {
		return v("channels-never-closed/after-hook-error", fmt.Sprintf("a hook returned an error but the channels are still open; errors %v", o.errs))
	}
	return nil
}

// nbReached: the failing hook call was actually reached (enough responses/blocks arrived).
func nbReached(cs reqCase, o *reqObs) bool {
	for _, e := range o.errs {
		if strings.Contains(e, "hook refuses") {
			return true
		}
	}
	return false
}

func c04Cases(thorough bool) []reqCase {
	var out []reqCase
	statuses := []graphsync.ResponseStatusCode{graphsync.RequestCompletedFull, graphsync.RequestCompletedPartial, graphsync.RequestRejected, graphsync.RequestFailedBusy, graphsync.RequestFailedUnknown, graphsync.RequestFailedLegal, graphsync.RequestFailedContentNotFound, graphsync.RequestCancelled, 0}
	acts := [][]string{nil, {"ctx-cancel"}, {"api-cancel"}, {"api-pause"}, {"api-pause", "api-unpause"}, {"api-pause", "api-cancel"}, {"api-pause", "ctx-cancel"}, {"ctx-cancel", "api-cancel"}}
	for _, st := range statuses {
		for tpos := 0; tpos <= 3; tpos++ {
			if st == graphsync.RequestCompletedFull && tpos != 3 {
				continue
			}
			for _, local := range []int{0, 1} {
				if local+tpos > 3 {
					continue
				}
				for _, as := range acts {
					for _, keep := range []bool{false, true} {
						if as == nil && keep {
							continue
						}
						n := tpos + 2
						var rec func(i int, cur []rspAct, from int)
						rec = func(i int, cur []rspAct, from int) {
							if i == len(as) {
								out = append(out, reqCase{Status: st, TPos: tpos, Local: local, Acts: append([]rspAct{}, cur...), Keep: keep})
								return
							}
							for p := from; p <= n; p++ {
								rec(i+1, append(cur, rspAct{as[i], p}), p)
							}
						}
						rec(0, nil, 0)
					}
				}
			}
		}
	}
	// hook errors and send failures
	for _, st := range []graphsync.ResponseStatusCode{graphsync.RequestCompletedFull, graphsync.RequestFailedUnknown, 0} {
		tpos := 3
		if st != graphsync.RequestCompletedFull {
			tpos = 2
		}
		for i := 1; i <= 3; i++ {
			out = append(out, reqCase{Status: st, TPos: tpos, BlockErr: i}, reqCase{Status: st, TPos: tpos, RespErr: i},
				reqCase{Status: st, TPos: tpos, BlockErr: i, Keep: true}, reqCase{Status: st, TPos: tpos, RespErr: i, Keep: true})
		}
		for _, fs := range [][]int{{0}, {1}} {
			for _, as := range [][]rspAct{nil, {{K: "ctx-cancel", Pos: 0}}, {{K: "ctx-cancel", Pos: 1}}, {{K: "api-cancel", Pos: 1}}} {
				out = append(out, reqCase{Status: st, TPos: tpos, FailSend: fs, Acts: as})
			}
		}
	}
	return out
}

func runC04(c *core.Ctx) {
	cases := c04Cases(c.Thorough())
	for i, cs := range cases {
		if !c.Mine(int64(i)) {
			continue
		}
		if i%64 == 0 && c.Expired() {
			c.Res.Exhaustive = false
			c.Note("deadline after %d of %d event-level cases", i, len(cases))
			return
		}
		o, _ := reqRun(vsched.Config{Fast: true}, cs)
		c.Res.Evaluations++
		c.Res.Traces++
		c.Res.States++
		c.Res.Transitions += int64(len(o.trace))
		c.Class(fmt.Sprintf("event-level closed=%v term=%v cancel=%v paused=%v", o.closed, o.termDelivered, o.cancelIssued, o.pausedAtEnd))
		if i%499 == 0 {
			c.Sample(cs.String())
		}
		if v := c04Judge(cs, o); v != nil {
			c.Violate(v.Signature, v.What, v.Replay)
		}
	}
	bound := 1
	if c.Thorough() {
		bound = 2
	}
	var sc []reqCase
	for _, st := range []graphsync.ResponseStatusCode{graphsync.RequestCompletedFull, graphsync.RequestFailedUnknown} {
		for _, local := range []int{0, 1, 2} {
			for _, as := range [][]rspAct{{{K: "ctx-cancel"}}, {{K: "api-cancel"}}, {{K: "api-pause"}}, nil, {{K: "ctx-cancel-early"}}} {
				if len(as) == 1 && as[0].K == "ctx-cancel-early" && (local == 2 || st != graphsync.RequestCompletedFull) {
					continue
				}
				tpos := 3 - local
				if st != graphsync.RequestCompletedFull {
					tpos = 1
				}
				sc = append(sc, reqCase{Status: st, TPos: tpos, Local: local, Acts: as, Keep: true, Sched: true})
			}
		}
	}
	for i, cs := range sc {
		if !c.Mine(int64(i)) {
			continue
		}
		if c.Expired() {
			c.Res.Exhaustive = false
			c.Note("deadline after %d of %d schedule-level cases", i, len(sc))
			return
		}
		cs := cs
		c.Explore(core.ExploreOpts{MaxBound: bound, Cost: core.Deviation, Label: cs, NoShard: true, MaxExecs: 60000}, func(cfg vsched.Config) core.Exec {
			o, s := reqRun(cfg, cs)
			return core.Exec{Sched: s, Outcome: fmt.Sprintf("schedule-level closed=%v errs=%v", o.closed, o.errs), Viol: c04Judge(cs, o)}
		})
		c.ExploreSlow(cs, vsched.Config{}, []int{0, 100}, func(cfg vsched.Config) core.Exec {
			o, s := reqRun(cfg, cs)
			return core.Exec{Sched: s, Outcome: fmt.Sprintf("closed=%v errs=%v", o.closed, o.errs), Viol: c04Judge(cs, o)}
		})
	}
}

func init() {
	core.Register(&core.Prop{ID: "C04", Level: "model_checking",
		Rule:        "a real requestor asks a scripted responder for a 3-block chain; the responder plays 0..3 block messages then a terminal status (each of the 8 terminal codes, or none); the requestor holds 0 or 1 leading blocks. Event level (gated network, quiescence after each event): caller action lists {none, context cancel, Cancel API, Pause, Pause+Unpause, Pause+Cancel, Pause+context cancel, cancel twice} placed at every combination of positions between the responder's messages, the responder stopping or continuing after a cancel; block-hook / response-hook errors at call 1..3; failing sends of the request or of the cancel. Schedule level (auto network): the responder answers at once, the caller action runs in its own thread, local prefix 0..2, every schedule within the deviation bound after set-up; a class is (level, closed, terminal delivered, cancel issued, paused at end)",
		Assumptions: []string{"a request left paused (never unpaused nor cancelled) is exempt from the closure requirement (DESIGN 7)", "a cancel issued after the request already terminated requires nothing", "reader thread keeps reading both channels"},
		Run:         runC04, QuickBudget: 300, ThoroughBudget: 2400,
		Replay: func(raw json.RawMessage) string {
			var w struct {
				Label  *reqCase `json:"label"`
				Prefix []int    `json:"prefix"`
			}
			if json.Unmarshal(raw, &w) == nil && w.Label != nil && w.Label.Sched {
				o, _ := reqRun(core.CfgFromReplay(raw), *w.Label)
				det := fmt.Sprintf(" [closed=%v errs=%v nodes=%d termDelivered=%v cancelWhenDone=%v responderDone=%v wire=%v state=%q]", o.closed, o.errs, o.visits, o.termDelivered, o.cancelWhenDone, o.responderDone, o.wireReqs, o.stateLeft)
				if v := c04Judge(*w.Label, o); v != nil {
					return v.Signature + ": " + v.What + det
				}
				return "ok" + det
			}
			var cs reqCase
			if err := json.Unmarshal(raw, &cs); err != nil {
				return err.Error()
			}
			o, _ := reqRun(vsched.Config{Fast: true}, cs)
			if v := c04Judge(cs, o); v != nil {
				return v.Signature + ": " + v.What
			}
			return fmt.Sprintf("ok (closed=%v errs=%v visits=%d)", o.closed, o.errs, o.visits)
		}})
}
