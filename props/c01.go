package props

import (
	"bytes"
	"context"
	"encoding/json"
	"fmt"
	"strings"

	blocks "github.com/ipfs/go-block-format"
	"github.com/ipfs/go-cid"
	"github.com/ipfs/go-graphsync"
	gsmsg "github.com/ipfs/go-graphsync/message"
	"github.com/ipfs/go-graphsync/zzverif/vsched"
	dagpb "github.com/ipld/go-codec-dagpb"
	"github.com/ipld/go-ipld-prime"
	"github.com/ipld/go-ipld-prime/datamodel"
	"github.com/ipld/go-ipld-prime/fluent/qp"
	cidlink "github.com/ipld/go-ipld-prime/linking/cid"
	"github.com/libp2p/go-libp2p/core/peer"

	"verif/core"
	"verif/harness"
)

// C01: requestor only delivers and stores verified, selector-reachable data
// (DESIGN 6 C01). Real requestor, adversarial scripted responder: exhaustive
// tree of adversarial message sequences.

type advMove struct {
	Req    int    `json:"req"`              // 1 or 2: which request the metadata addresses
	Link   int    `json:"link"`             // 0..2: block of the request's DAG; 3: decoy (valid block outside the DAG)
	Action string `json:"action"`           // P M D S
	Block  string `json:"block"`            // none | own | own+extra
	Join   bool   `json:"join"`             // same message as the previous move
	Status int    `json:"status,omitempty"` // terminal status sent with this move (0: PartialResponse)
	Burst  bool   `json:"burst,omitempty"`  // own message, delivered right behind the previous one (the requestor does not run in between)
}

func (m advMove) String() string {
	l := fmt.Sprintf("b%d", m.Link)
	if m.Link == 3 {
		l = "decoy"
	}
	j := ""
	if m.Join {
		j = "+"
	}
	if m.Burst {
		j = ">"
	}
	st := ""
	if m.Status != 0 {
		st = fmt.Sprintf(" status=%d", m.Status)
	}
	return fmt.Sprintf("%sr%d(%s,%s,%s%s)", j, m.Req, l, m.Action, m.Block, st)
}

type c01Case struct {
	Sel     string    `json:"selector"`
	Local   []int     `json:"requestor_has"`
	Moves   []advMove `json:"moves"`
	Second  bool      `json:"second_request"`           // a second request (other DAG) is issued once the first has terminated
	PauseAt int       `json:"pause_at_block,omitempty"` // the requestor's block hook pauses the request at this block; it is resumed after the moves
	After   []advMove `json:"after_resume,omitempty"`   // one more message, sent after the resume
}

func (c c01Case) String() string {
	var p []string
	for _, m := range c.Moves {
		p = append(p, m.String())
	}
	ps := ""
	if c.PauseAt > 0 {
		var a []string
		for _, m := range c.After {
			a = append(a, m.String())
		}
		ps = fmt.Sprintf("; the requestor pauses at block %d and resumes after these messages, then: %s", c.PauseAt, strings.Join(a, " "))
	}
	return fmt.Sprintf("selector %s requestor has %v; adversary: %s%s", c.Sel, c.Local, strings.Join(p, " "), ps)
}

var c01Actions = map[string]graphsync.LinkAction{"P": graphsync.LinkActionPresent, "M": graphsync.LinkActionMissing, "D": graphsync.LinkActionDuplicateNotSent, "S": graphsync.LinkActionDuplicateDAGSkipped}

type c01World struct {
	dags  [2]*harness.DAG
	decoy *harness.DAG
}

func c01Build() c01World {
	sh := harness.Shape{Name: "c01", Blocks: []harness.BlockSpec{{Edges: []harness.Edge{{To: 1}, {To: 2, Form: harness.Inline}}}, {}, {}}}
	return c01World{dags: [2]*harness.DAG{harness.Build(sh, "c01-a"), harness.Build(sh, "c01-b")}, decoy: harness.Build(harness.Shape{Blocks: []harness.BlockSpec{{}}}, "c01-decoy")}
}

type c01Obs struct {
	visits   [2][]harness.Visit
	errs     [2][]string
	closed   [2]bool
	issued2  bool
	store    map[string][]byte
	initial  map[string]bool
	panicked string
	sentQ    int
}

func c01Run(cs c01Case) *c01Obs {
	o := &c01Obs{store: map[string][]byte{}, initial: map[string]bool{}}
	w := c01Build()
	sel := findSel(cs.Sel)
	s := vsched.Run(vsched.Config{Fast: true}, func() {
		f := harness.NewFixture(true)
		qs := harness.NewStore()
		for _, i := range cs.Local {
			qs.Put(w.dags[0].Links[i], w.dags[0].Data[i])
			o.initial[w.dags[0].Links[i].Binary()] = true
		}
		q := f.AddNode(peer.ID("Q"), qs)
		f.AddScript(peer.ID("S"))
		ids := [2]graphsync.RequestID{harness.MkID(1), harness.MkID(2)}
		var res [2]*harness.ReqResult
		if cs.PauseAt > 0 {
			nblk, done := 0, false
			q.GS.RegisterIncomingBlockHook(func(p peer.ID, rd graphsync.ResponseData, b graphsync.BlockData, ha graphsync.IncomingBlockHookActions) {
				nblk++
				if nblk == cs.PauseAt && !done {
					done = true
					ha.PauseRequest()
				}
			})
		}
		res[0] = q.Request(f, peer.ID("S"), w.dags[0].Root, sel.Node, ids[0])
		vsched.Quiesce()
		linkOf := func(m advMove) (cid.Cid, []byte) {
			if m.Link == 3 {
				return w.decoy.Links[0].(cidlink.Link).Cid, w.decoy.Data[0]
			}
			d := w.dags[m.Req-1]
			return d.Links[m.Link].(cidlink.Link).Cid, d.Data[m.Link]
		}
		flush := func(batch []advMove, quiesce bool) {
			if len(batch) == 0 {
				return
			}
			rsp := map[graphsync.RequestID]gsmsg.GraphSyncResponse{}
			bl := map[cid.Cid]blocks.Block{}
			per := map[int][]gsmsg.GraphSyncLinkMetadatum{}
			status := map[int]graphsync.ResponseStatusCode{}
			for _, m := range batch {
				c, data := linkOf(m)
				per[m.Req] = append(per[m.Req], gsmsg.GraphSyncLinkMetadatum{Link: c, Action: c01Actions[m.Action]})
				if m.Block != "none" {
					b, _ := blocks.NewBlockWithCid(data, c)
					bl[c] = b
				}
				if m.Block == "own+extra" {
					b, _ := blocks.NewBlockWithCid(w.decoy.Data[0], w.decoy.Links[0].(cidlink.Link).Cid)
					bl[b.Cid()] = b
				}
				if m.Status != 0 {
					status[m.Req] = graphsync.ResponseStatusCode(m.Status)
				}
			}
			for r, md := range per {
				st := graphsync.PartialResponse
				if s, ok := status[r]; ok {
					st = s
				}
				rsp[ids[r-1]] = gsmsg.NewResponse(ids[r-1], st, md)
			}
			f.Net.Node(q.ID).Inject(peer.ID("S"), gsmsg.NewMessage(nil, rsp, bl))
			if quiesce {
				vsched.Quiesce()
			}
		}
		var batch []advMove
		for _, m := range cs.Moves {
			if m.Req == 2 && res[1] == nil {
				flush(batch, true)
				batch = nil
				if !cs.Second {
					continue
				}
				res[1] = q.Request(f, peer.ID("S"), ipld.Link(w.dags[1].Root), sel.Node, ids[1])
				o.issued2 = true
				vsched.Quiesce()
			}
			if !m.Join {
				flush(batch, !m.Burst)
				batch = nil
			}
			batch = append(batch, m)
		}
		flush(batch, true)
		if cs.PauseAt > 0 {
			_ = q.GS.Unpause(context.Background(), ids[0])
			vsched.Quiesce()
			var ab []advMove
			for _, m := range cs.After {
				m.Join = true
				ab = append(ab, m)
			}
			flush(ab, true)
		}
		for i, r := range res {
			if r == nil {
				continue
			}
			o.visits[i] = r.Visits
			o.errs[i] = r.ErrStrings(w.dags[i])
			o.closed[i] = r.Closed()
		}
		for k, v := range qs.M {
			o.store[k] = v
		}
		for _, wr := range f.Net.Wire {
			if wr.From == q.ID {
				o.sentQ++
			}
		}
		f.Cancel()
	})
	if s.Panic != nil {
		o.panicked = fmt.Sprint(s.Panic) + " | " + firstLines(s.PanicStack, 6)
	}
	return o
}

type c01Ref struct {
	visits map[string]bool
	order  []harness.Visit
	loads  map[string]bool
}

var c01Refs = map[string]*c01Ref{}

func c01Reference(w c01World, i int, selName string) *c01Ref {
	key := fmt.Sprintf("%d|%s", i, selName)
	if r, ok := c01Refs[key]; ok {
		return r
	}
	all := harness.NewStore()
	for k, l := range w.dags[i].Links {
		all.Put(l, w.dags[i].Data[k])
	}
	ref := harness.Reference(w.dags[i].Root, findSel(selName).Node, harness.RefOpts{Remote: all})
	r := &c01Ref{visits: map[string]bool{}, loads: map[string]bool{}, order: ref.Visits}
	for _, v := range ref.Visits {
		r.visits[v.Path+"="+v.Node] = true
	}
	for _, l := range ref.Loads {
		r.loads[l.Link.Binary()] = true
	}
	c01Refs[key] = r
	return r
}

func c01Judge(cs c01Case, o *c01Obs) (sig, what string) {
	if o.panicked != "" {
		return "panic", o.panicked
	}
	w := c01Build()
	reach := map[string]bool{}
	for i := 0; i < 2; i++ {
		ref := c01Reference(w, i, cs.Sel)
		for k := range ref.loads {
			reach[k] = true
		}
		// delivered nodes: genuine content at the right path, in traversal order (a subsequence of the full traversal)
		j := 0
		for _, v := range o.visits[i] {
			if !ref.visits[v.Path+"="+v.Node] {
				return "forged-or-unreachable-node-delivered", fmt.Sprintf("request %d handed the caller node %q at path %q, which the selector traversal of the true DAG never visits", i+1, v.Node, v.Path)
			}
			for j < len(ref.order) && (ref.order[j].Path != v.Path || ref.order[j].Node != v.Node) {
				j++
			}
			if j == len(ref.order) {
				return "nodes-delivered-out-of-traversal-order", fmt.Sprintf("request %d: node at path %q delivered out of order", i+1, v.Path)
			}
			j++
		}
	}
	name := func(k string) string {
		for i := 0; i < 2; i++ {
			if x, ok := w.dags[i].Index[k]; ok {
				return fmt.Sprintf("b%d of DAG %d", x, i+1)
			}
		}
		if k == w.decoy.Links[0].Binary() {
			return "the decoy block"
		}
		return "an unknown link"
	}
	for k, data := range o.store {
		if o.initial[k] {
			continue
		}
		c, err := cid.Cast([]byte(k))
		if err != nil {
			return "store-key-not-a-cid", fmt.Sprintf("%x", k)
		}
		sum, err := c.Prefix().Sum(data)
		if err != nil || !sum.Equals(c) {
			return "block-stored-under-a-cid-it-does-not-hash-to", fmt.Sprintf("the requestor's store holds %d bytes under the CID of %s, but they hash to %s", len(data), name(k), name(cidlink.Link{Cid: sum}.Binary()))
		}
		if !reach[k] {
			return "unreachable-block-stored", fmt.Sprintf("the requestor stored %s, which the selector does not reach from the request's root", name(k))
		}
	}
	return "", ""
}

func c01Alphabet(req int, full bool) []advMove {
	var out []advMove
	for link := 0; link < 4; link++ {
		for _, a := range []string{"P", "M", "D", "S"} {
			for _, b := range []string{"none", "own"} {
				if !full && (a == "S" || (a != "P" && b == "own" && link == 3)) {
					continue
				}
				out = append(out, advMove{Req: req, Link: link, Action: a, Block: b})
			}
		}
	}
	return out
}

func runC01(c *core.Ctx) {
	var idx int64
	try := func(cs c01Case) bool {
		idx++
		if !c.Mine(idx) {
			return true
		}
		if idx%512 == 0 && c.Expired() {
			c.Res.Exhaustive = false
			return false
		}
		o := c01Run(cs)
		sig, what := c01Judge(cs, o)
		c.Res.Evaluations++
		c.Res.Traces++
		c.Res.States++
		c.Res.Transitions += int64(len(cs.Moves))
		nst := 0
		for k := range o.store {
			if !o.initial[k] {
				nst++
			}
		}
		c.Class(fmt.Sprintf("delivered=%d stored=%d closed=%v second=%v", min(len(o.visits[0]), 6), nst, o.closed[0], o.issued2))
		if idx%20011 == 0 {
			c.Sample(cs.String())
		}
		if sig != "" {
			c.Violate(sig, cs.String()+": "+what, cs)
		}
		return true
	}
	A := c01Alphabet(1, true)
	sels := []string{"all-d10", "field-e0-then-all"}
	locals := [][]int{nil, {1}}
	if c.Thorough() {
		locals = append(locals, []int{0}, []int{0, 2})
	}
	// family 1: one request, every sequence of <= depth moves, two framings, with/without a final status
	for _, sn := range sels {
		for _, local := range locals {
			depth := 3
			if !c.Thorough() && (sn != "all-d10" || local != nil) {
				depth = 2 // quick: full depth for the main configuration only
			}
			var rec func(moves []advMove) bool
			rec = func(moves []advMove) bool {
				if len(moves) > 0 {
					for _, framing := range []string{"separate", "joined", "burst"} {
						if framing != "separate" && len(moves) < 2 {
							continue
						}
						for _, st := range []int{0, int(graphsync.RequestCompletedFull)} {
							ms := append([]advMove{}, moves...)
							for i := range ms {
								ms[i].Join = framing == "joined" && i > 0
								ms[i].Burst = framing == "burst" && i > 0
							}
							ms[len(ms)-1].Status = st
							if !try(c01Case{Sel: sn, Local: local, Moves: ms}) {
								return false
							}
							if framing == "burst" && st != 0 {
								// the terminal status comes first, the rest arrives behind it
								ms2 := append([]advMove{}, ms...)
								ms2[len(ms2)-1].Status = 0
								ms2[0].Status = st
								if !try(c01Case{Sel: sn, Local: local, Moves: ms2}) {
									return false
								}
							}
						}
					}
				}
				if len(moves) == depth {
					return true
				}
				alpha := A
				if len(moves) == 0 {
					// first move also with an unrelated extra block in the message
					for _, m := range A {
						if m.Block == "own" && m.Action == "P" {
							x := m
							x.Block = "own+extra"
							if !rec(append(append([]advMove{}, moves...), x)) {
								return false
							}
						}
					}
				}
				for _, m := range alpha {
					if !rec(append(append([]advMove{}, moves...), m)) {
						return false
					}
				}
				return true
			}
			if !rec(nil) {
				return
			}
		}
	}
	// family 2: the first request is answered honestly and ends; late messages for it follow; then a second
	// request over another DAG gets every sequence of <= 2 adversarial moves
	honest := []advMove{{Req: 1, Link: 0, Action: "P", Block: "own"}, {Req: 1, Link: 1, Action: "P", Block: "own"}, {Req: 1, Link: 2, Action: "P", Block: "own", Status: int(graphsync.RequestCompletedFull)}}
	late := [][]advMove{nil}
	for _, m := range c01Alphabet(1, false) {
		m.Burst = true // right behind the terminal message: the request is still registered, its loader already offline
		late = append(late, []advMove{m})
	}
	B := c01Alphabet(2, false)
	for _, lt := range late {
		for _, m1 := range B {
			for _, st := range []int{0, int(graphsync.RequestCompletedFull)} {
				ms := append(append(append([]advMove{}, honest...), lt...), m1)
				ms[len(ms)-1].Status = st
				if !try(c01Case{Sel: "all-d10", Moves: ms, Second: true}) {
					return
				}
			}
			if len(lt) > 0 && !c.Thorough() && lt[0].Action != "P" {
				continue
			}
			for _, m2 := range B {
				ms := append(append(append([]advMove{}, honest...), lt...), m1, m2)
				if !try(c01Case{Sel: "all-d10", Moves: ms, Second: true}) {
					return
				}
			}
		}
	}
	// family 4: the requestor pauses itself at block k while further entries of the same message are still
	// unread, is resumed, and (optionally) gets one more message: what was left unread must not be stored or
	// delivered unverified
	Ar := c01Alphabet(1, false)
	for _, k := range []int{1, 2} {
		prefix := honest[:k]
		var tails [][]advMove
		for _, m1 := range A {
			tails = append(tails, []advMove{m1})
			if m1.Action == "P" || c.Thorough() {
				for _, m2 := range Ar {
					tails = append(tails, []advMove{m1, m2})
				}
			}
		}
		afters := [][]advMove{nil}
		for _, m := range Ar {
			afters = append(afters, []advMove{m})
		}
		for _, t := range tails {
			for _, af := range afters {
				if len(t) == 2 && len(af) > 0 && !c.Thorough() && af[0].Action != "P" {
					continue
				}
				ms := append(append([]advMove{}, prefix...), t...)
				for i := range ms {
					ms[i].Join = i > 0
					ms[i].Status = 0
				}
				if !try(c01Case{Sel: "all-d10", Moves: ms, PauseAt: k, After: af}) {
					return
				}
			}
		}
	}
	c.Count("sequences", idx)
	c01FamilyPB(c, idx)
}

// ---- family 3: CID forms. A dag-pb DAG linked by CIDv0; the adversary announces
// each link as itself, as its CIDv1 twin (same digest), or as a decoy dag-pb
// block in either CID version, with or without the block keyed by that CID.

type pbMove struct {
	Link  string `json:"link"`  // own0 own1 decoy0 decoy1
	Block bool   `json:"block"` // the block whose bytes hash to that CID travels along
	Act   string `json:"action"`
}

type c01PBCase struct {
	PB    bool     `json:"dag_pb"`
	Moves []pbMove `json:"moves"`
}

func (c c01PBCase) String() string {
	var p []string
	for i, m := range c.Moves {
		p = append(p, fmt.Sprintf("step %d: announce %s (%s, block=%v)", i+1, m.Link, m.Act, m.Block))
	}
	return "dag-pb DAG linked by CIDv0; adversary: " + strings.Join(p, "; ")
}

type pbWorld struct {
	data map[string][]byte // name -> bytes
	c0   map[string]cid.Cid
	c1   map[string]cid.Cid
}

func pbBuild() pbWorld {
	w := pbWorld{data: map[string][]byte{}, c0: map[string]cid.Cid{}, c1: map[string]cid.Cid{}}
	mk := func(name string, data string, links ...cid.Cid) {
		nd, err := qp.BuildMap(dagpb.Type.PBNode, 2, func(ma datamodel.MapAssembler) {
			qp.MapEntry(ma, "Links", qp.List(int64(len(links)), func(la datamodel.ListAssembler) {
				for _, l := range links {
					qp.ListEntry(la, qp.Map(1, func(ma2 datamodel.MapAssembler) {
						qp.MapEntry(ma2, "Hash", qp.Link(cidlink.Link{Cid: l}))
					}))
				}
			}))
			qp.MapEntry(ma, "Data", qp.Bytes([]byte(data)))
		})
		if err != nil {
			panic(err)
		}
		var buf bytes.Buffer
		if err := dagpb.Encode(nd, &buf); err != nil {
			panic(err)
		}
		w.data[name] = buf.Bytes()
		c0, _ := cid.Prefix{Version: 0, Codec: cid.DagProtobuf, MhType: 0x12, MhLength: 32}.Sum(buf.Bytes())
		w.c0[name] = c0
		w.c1[name] = cid.NewCidV1(cid.DagProtobuf, c0.Hash())
	}
	mk("leaf", "leaf data")
	mk("decoy", "decoy data")
	mk("root", "root data", w.c0["leaf"])
	return w
}

func c01RunPB(cs c01PBCase) (*c01Obs, pbWorld) {
	o := &c01Obs{store: map[string][]byte{}, initial: map[string]bool{}}
	w := pbBuild()
	s := vsched.Run(vsched.Config{Fast: true}, func() {
		f := harness.NewFixture(true)
		qs := harness.NewStore()
		q := f.AddNode(peer.ID("Q"), qs)
		f.AddScript(peer.ID("S"))
		id := harness.MkID(1)
		res := q.Request(f, peer.ID("S"), cidlink.Link{Cid: w.c0["root"]}, harness.RecAll(10), id)
		vsched.Quiesce()
		expected := []string{"root", "leaf"}
		for i, m := range cs.Moves {
			name := expected[min(i, 1)]
			if strings.HasPrefix(m.Link, "decoy") {
				name = "decoy"
			}
			c := w.c0[name]
			if strings.HasSuffix(m.Link, "1") {
				c = w.c1[name]
			}
			bl := map[cid.Cid]blocks.Block{}
			if m.Block {
				b, _ := blocks.NewBlockWithCid(w.data[name], c)
				bl[c] = b
			}
			rsp := gsmsg.NewResponse(id, graphsync.PartialResponse, []gsmsg.GraphSyncLinkMetadatum{{Link: c, Action: c01Actions[m.Act]}})
			f.Net.Node(q.ID).Inject(peer.ID("S"), gsmsg.NewMessage(nil, map[graphsync.RequestID]gsmsg.GraphSyncResponse{id: rsp}, bl))
			vsched.Quiesce()
		}
		o.visits[0] = res.Visits
		o.closed[0] = res.Closed()
		for k, v := range qs.M {
			o.store[k] = v
		}
		f.Cancel()
	})
	if s.Panic != nil {
		o.panicked = fmt.Sprint(s.Panic) + " | " + firstLines(s.PanicStack, 6)
	}
	return o, w
}

func c01JudgePB(cs c01PBCase, o *c01Obs, w pbWorld) (sig, what string) {
	if o.panicked != "" {
		return "panic", o.panicked
	}
	reach := map[string]string{cidlink.Link{Cid: w.c0["root"]}.Binary(): "root", cidlink.Link{Cid: w.c0["leaf"]}.Binary(): "leaf"}
	for k, data := range o.store {
		c, err := cid.Cast([]byte(k))
		if err != nil {
			return "store-key-not-a-cid", fmt.Sprintf("%x", k)
		}
		sum, err := c.Prefix().Sum(data)
		if err != nil || !sum.Equals(c) {
			what := "other bytes"
			for n, d := range w.data {
				if bytes.Equal(d, data) {
					what = "the bytes of the " + n + " block"
				}
			}
			return "block-stored-under-a-cid-it-does-not-hash-to", fmt.Sprintf("the store holds %s under %s (the %s link), which they do not hash to", what, c, reach[k])
		}
		if _, ok := reach[k]; !ok {
			return "unreachable-block-stored", fmt.Sprintf("the requestor stored a block under %s, which is not a link of the requested DAG", c)
		}
	}
	for _, v := range o.visits[0] {
		if strings.Contains(v.Node, "decoy") {
			return "forged-or-unreachable-node-delivered", fmt.Sprintf("node %q at path %q comes from the decoy block", v.Node, v.Path)
		}
	}
	return "", ""
}

func c01FamilyPB(c *core.Ctx, base int64) {
	var opts []pbMove
	for _, l := range []string{"own0", "own1", "decoy0", "decoy1"} {
		for _, b := range []bool{false, true} {
			opts = append(opts, pbMove{Link: l, Block: b, Act: "P"})
		}
		opts = append(opts, pbMove{Link: l, Act: "M"}, pbMove{Link: l, Act: "D"})
	}
	idx := base
	for _, m1 := range opts {
		for _, m2 := range append([]pbMove{{}}, opts...) {
			for _, m3 := range append([]pbMove{{}}, opts...) {
				if m2.Link == "" && m3.Link != "" {
					continue
				}
				idx++
				if !c.Mine(idx) {
					continue
				}
				cs := c01PBCase{PB: true, Moves: []pbMove{m1}}
				if m2.Link != "" {
					cs.Moves = append(cs.Moves, m2)
				}
				if m3.Link != "" {
					cs.Moves = append(cs.Moves, m3)
				}
				o, w := c01RunPB(cs)
				sig, what := c01JudgePB(cs, o, w)
				c.Res.Evaluations++
				c.Res.Traces++
				c.Res.States++
				c.Res.Transitions += int64(len(cs.Moves))
				c.Class(fmt.Sprintf("dag-pb delivered=%d stored=%d", min(len(o.visits[0]), 6), len(o.store)))
				if sig != "" {
					c.Violate(sig+"/cid-forms", cs.String()+": "+what, cs)
				}
			}
		}
	}
}

func init() {
	core.Register(&core.Prop{ID: "C01", Level: "model_checking",
		Rule:        "a real requestor (store empty or holding block 1; thorough also block 0 / blocks 0,2) asks an adversarial scripted responder for a 3-block DAG (root -> b1 by field, root -> b2 by an inline map) under two selectors (everything; only the e0 branch, so b2 is in the DAG but unreachable). Family 1: every sequence of <= 3 adversarial metadata moves, each = link in {b0,b1,b2, a decoy valid block outside the DAG} x action in {Present, Missing, DuplicateNotSent, DuplicateDAGSkipped} x block data {absent, the true bytes of that link (block CIDs are recomputed from bytes on decode, so nothing else can be keyed by it)} (+ an unrelated extra block with the first move), each move in its own message or all in one, with or without a final complete-full status. Family 2: the first request is answered honestly and ends, a late message for it follows, then a second request over another DAG receives every sequence of <= 2 moves. Family 3: a dag-pb DAG linked by CIDv0; every sequence of <= 3 moves announcing each link as itself, as its CIDv1 twin, or as a decoy dag-pb block in either CID version, with or without the matching block. A class is (nodes delivered, blocks stored, closed, second request issued)",
		Assumptions: []string{"reference: the selector traversal of the true DAG with every block available gives the set and order of legitimate (path, node) deliveries and the set of selector-reachable links", "default schedule; quiescence after every adversarial message"},
		Run:         runC01, QuickBudget: 300, ThoroughBudget: 2400,
		Replay: func(raw json.RawMessage) string {
			var pb c01PBCase
			if json.Unmarshal(raw, &pb) == nil && pb.PB {
				o, w := c01RunPB(pb)
				sig, what := c01JudgePB(pb, o, w)
				if sig == "" {
					return "ok"
				}
				return sig + ": " + what
			}
			var cs c01Case
			if err := json.Unmarshal(raw, &cs); err != nil {
				return err.Error()
			}
			sig, what := c01Judge(cs, c01Run(cs))
			if sig == "" {
				return "ok"
			}
			return sig + ": " + what
		}})
}
