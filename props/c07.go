package props

import (
	"encoding/json"
	"fmt"
	"strings"

	"github.com/ipfs/go-graphsync"
	gsimpl "github.com/ipfs/go-graphsync/impl"
	"github.com/ipfs/go-graphsync/zzverif/vsched"
	"github.com/libp2p/go-libp2p/core/peer"

	"verif/core"
	"verif/harness"
)

// C07: link budgets cap loaded blocks exactly (DESIGN 6 C07).
// Enumerated: shapes x selectors x budget N' in 1..needed+1 x placement.

type c07Case struct {
	Shape   harness.Shape `json:"shape"`
	Sel     string        `json:"selector"`
	Place   string        `json:"placement"`
	Budget  uint64        `json:"budget"`
	Other   uint64        `json:"other_budget,omitempty"` // the larger (losing) budget when two are set
	LocalQ  bool          `json:"requestor_has_all"`
	Needed  int           `json:"needed"`
	Variant string        `json:"variant,omitempty"`
	Reqs    int           `json:"requests,omitempty"`                     // sequential requests served by the same instances (default 1)
	Prefix  int           `json:"requestor_holds_first_blocks,omitempty"` // the requestor holds the first K blocks of a chain, so its request asks the responder to skip them; only the responder's count is judged
}

func c07Placements() []string {
	return []string{"req-global", "req-hook", "resp-global", "resp-hook", "req-global<hook", "req-hook<global", "resp-global<hook", "resp-hook<global"}
}

func blockRoots(v []harness.Visit) int {
	n := 0
	for _, x := range v {
		if strings.HasPrefix(x.Node, "b:raw-leaf") {
			n++
		} else if strings.HasPrefix(x.Node, "map{") {
			for _, k := range strings.Split(strings.TrimSuffix(x.Node[4:], "}"), ",") {
				if k == "v" { // every block root of the harness DAGs carries field "v"
					n++
				}
			}
		}
	}
	return n
}

// c07RunPrefix: a responder-side budget N on a 5-block chain whose first K blocks the requestor already holds
// (its request carries do-not-send-first-blocks K): the responder still loads at most N blocks in all.
func c07RunPrefix(cs c07Case) (sig, what string) {
	d := harness.Build(cs.Shape, "")
	sel := findSel(cs.Sel)
	split := make(harness.Split, len(cs.Shape.Blocks))
	for i := range split {
		split[i] = 2
		if i < cs.Prefix {
			split[i] = 3
		}
	}
	var ropts []gsimpl.Option
	var rHook uint64
	if cs.Place == "resp-global" {
		ropts = append(ropts, gsimpl.MaxLinksPerIncomingRequests(cs.Budget))
	} else {
		rHook = cs.Budget
	}
	mdCount, reads := 0, 0
	var panicked string
	s := vsched.Run(vsched.Config{Fast: true}, func() {
		f := harness.NewFixture(false)
		qs, rs := d.Stores(split)
		rs.Instrument = true
		q := f.AddNode(peer.ID("Q"), qs)
		r := f.AddNode(peer.ID("R"), rs, ropts...)
		if rHook > 0 {
			r.GS.RegisterIncomingRequestHook(func(p peer.ID, rq graphsync.RequestData, ha graphsync.IncomingRequestHookActions) {
				ha.MaxLinks(rHook)
			})
		}
		q.Request(f, r.ID, d.Root, sel.Node, harness.MkID(1))
		vsched.Quiesce()
		for _, w := range f.Net.Wire {
			if w.From == r.ID {
				for _, rsp := range w.Msg.Responses() {
					mdCount += int(rsp.Metadata().Length())
				}
			}
		}
		reads = rs.Calls("read")
		f.Cancel()
	})
	if s.Panic != nil {
		panicked = fmt.Sprint(s.Panic)
	}
	detail := fmt.Sprintf("chain of %d blocks, the requestor holds the first %d (asks to skip them), responder budget %d (%s): the responder listed %d links and read %d blocks from its store", len(cs.Shape.Blocks), cs.Prefix, cs.Budget, cs.Place, mdCount, reads)
	switch {
	case panicked != "":
		return "panic", detail + ": " + panicked
	case uint64(mdCount) > cs.Budget || uint64(reads) > cs.Budget:
		return "responder-loaded-more-than-budget/requestor-holds-prefix", detail
	case uint64(len(cs.Shape.Blocks)) > cs.Budget && uint64(mdCount) < cs.Budget:
		return "responder-stopped-before-budget/requestor-holds-prefix", detail
	}
	return "", ""
}

func c07Run(cs c07Case) (sig, what string) {
	if cs.Prefix > 0 {
		return c07RunPrefix(cs)
	}
	n := cs.Reqs
	if n == 0 {
		n = 1
	}
	for k := 0; k < n; k++ {
		if sig, what = c07RunK(cs, n, k); sig != "" {
			if k > 0 {
				sig += "/later-request-on-same-instance"
				what = fmt.Sprintf("request %d of %d on the same instances: %s", k+1, n, what)
			}
			return
		}
	}
	return "", ""
}

// c07RunK runs n sequential requests over distinct DAGs of the same shape and judges the k-th.
func c07RunK(cs c07Case, n, k int) (sig, what string) {
	d := harness.Build(cs.Shape, "")
	dags := make([]*harness.DAG, n)
	for i := range dags {
		dags[i] = harness.Build(cs.Shape, fmt.Sprintf("#%d", i))
	}
	d = dags[k]
	sel := findSel(cs.Sel)
	var qopts, ropts []gsimpl.Option
	var qHook, rHook uint64
	switch cs.Place {
	case "req-global":
		qopts = append(qopts, gsimpl.MaxLinksPerOutgoingRequests(cs.Budget))
	case "req-hook":
		qHook = cs.Budget
	case "resp-global":
		ropts = append(ropts, gsimpl.MaxLinksPerIncomingRequests(cs.Budget))
	case "resp-hook":
		rHook = cs.Budget
	case "req-global<hook":
		qopts = append(qopts, gsimpl.MaxLinksPerOutgoingRequests(cs.Budget))
		qHook = cs.Other
	case "req-hook<global":
		qopts = append(qopts, gsimpl.MaxLinksPerOutgoingRequests(cs.Other))
		qHook = cs.Budget
	case "resp-global<hook":
		ropts = append(ropts, gsimpl.MaxLinksPerIncomingRequests(cs.Budget))
		rHook = cs.Other
	case "resp-hook<global":
		ropts = append(ropts, gsimpl.MaxLinksPerIncomingRequests(cs.Other))
		rHook = cs.Budget
	}
	onReq := strings.HasPrefix(cs.Place, "req")
	split := make(harness.Split, len(cs.Shape.Blocks))
	for i := range split {
		split[i] = 2
		if cs.LocalQ {
			split[i] = 3
		}
	}
	var visits []harness.Visit
	var errs []string
	var closed bool
	var wire []*harness.Wire
	var panicked string
	s := vsched.Run(vsched.Config{Fast: true}, func() {
		f := harness.NewFixture(false)
		qs, rs := d.Stores(split)
		for i, od := range dags {
			if i != k {
				oq, or := od.Stores(split)
				for kk, v := range oq.M {
					qs.M[kk] = v
				}
				for kk, v := range or.M {
					rs.M[kk] = v
				}
			}
		}
		q := f.AddNode(peer.ID("Q"), qs, qopts...)
		r := f.AddNode(peer.ID("R"), rs, ropts...)
		if qHook > 0 {
			q.GS.RegisterOutgoingRequestHook(func(p peer.ID, rq graphsync.RequestData, ha graphsync.OutgoingRequestHookActions) {
				ha.MaxLinks(qHook)
			})
		}
		if rHook > 0 {
			r.GS.RegisterIncomingRequestHook(func(p peer.ID, rq graphsync.RequestData, ha graphsync.IncomingRequestHookActions) {
				ha.MaxLinks(rHook)
			})
		}
		for i := 0; i < k; i++ {
			q.Request(f, r.ID, dags[i].Root, sel.Node, harness.MkID(byte(10+i)))
			vsched.Quiesce()
		}
		f.Net.Wire = nil
		res := q.Request(f, r.ID, d.Root, sel.Node, harness.MkID(1))
		vsched.Quiesce()
		visits = append(visits, res.Visits...)
		errs = res.ErrStrings(d)
		closed = res.Closed()
		wire = f.Net.Wire
		f.Cancel()
	})
	if s.Panic != nil {
		panicked = fmt.Sprint(s.Panic)
	}
	loaded := blockRoots(visits)
	// responder's metadata count
	mdCount := 0
	finalStatus := graphsync.ResponseStatusCode(0)
	for _, w := range wire {
		if w.From != peer.ID("R") {
			continue
		}
		for _, rsp := range w.Msg.Responses() {
			mdCount += int(rsp.Metadata().Length())
			if rsp.Status().IsTerminal() {
				finalStatus = rsp.Status()
			}
		}
	}
	var budgetErrs, otherErrs []string
	for _, e := range errs {
		if strings.HasPrefix(e, "budget:") {
			budgetErrs = append(budgetErrs, e)
		} else {
			otherErrs = append(otherErrs, e)
		}
	}
	detail := fmt.Sprintf("shape %s selector %s placement %s budget %d (other %d) requestorHasAll=%v needed=%d: requestor loaded %d blocks, responder listed %d links, final status %s, errors %v", cs.Shape, cs.Sel, cs.Place, cs.Budget, cs.Other, cs.LocalQ, cs.Needed, loaded, mdCount, finalStatus, errs)
	b1 := ""
	if cs.Budget == 1 {
		b1 = "/budget=1"
	}
	if panicked != "" {
		return "panic", panicked + "; " + detail
	}
	if !closed {
		return "channels-not-closed", detail
	}
	if uint64(cs.Needed) <= cs.Budget {
		// the budget must not cause a failure
		if len(errs) > 0 || loaded != cs.Needed {
			return "budget-sufficient-but-request-failed" + b1, detail
		}
		return "", ""
	}
	// needs more than the budget: exactly N blocks then a budget-exceeded failure
	if onReq {
		if uint64(loaded) > cs.Budget {
			return "requestor-loaded-more-than-budget", detail
		}
		if uint64(loaded) < cs.Budget {
			return "requestor-stopped-before-budget" + b1, detail
		}
		if len(budgetErrs) == 0 {
			return "no-budget-exceeded-error", detail
		}
		return "", ""
	}
	if cs.LocalQ {
		// requestor holds everything: nothing is asked of the responder
		return "", ""
	}
	if uint64(mdCount) > cs.Budget {
		return "responder-loaded-more-than-budget", detail
	}
	if uint64(mdCount) < cs.Budget {
		return "responder-stopped-before-budget" + b1, detail
	}
	if finalStatus.IsSuccess() || !finalStatus.IsTerminal() || len(otherErrs) == 0 {
		return "responder-budget-exceeded-not-reported-as-failure", detail
	}
	return "", ""
}

func runC07(c *core.Ctx) {
	// chains 1..5, plus the tree/diamond catalogue for N<=3 (one form variant)
	var shapes []harness.Shape
	for n := 1; n <= 5; n++ {
		s := harness.Shape{Name: fmt.Sprintf("chain%d", n), Blocks: make([]harness.BlockSpec, n)}
		for i := 0; i+1 < n; i++ {
			s.Blocks[i].Edges = []harness.Edge{{To: i + 1, Form: harness.Form(i % 4)}}
		}
		shapes = append(shapes, s)
	}
	maxN, variants := 3, 1
	if c.Thorough() {
		maxN, variants = 4, 2
	}
	for _, s := range harness.Shapes(maxN, variants, false, true, true) {
		if len(s.Blocks) >= 3 {
			shapes = append(shapes, s)
		}
	}
	sels := []string{"all-d10", "all-d2", "field-e0-then-all"}
	var idx int64
	// (b) budgets are counted in blocks: wide blocks (thousands of nodes, no extra links) and huge budgets
	wide := harness.Shape{Name: "wide2", Blocks: []harness.BlockSpec{{Pad: 2100, Edges: []harness.Edge{{To: 1}}}, {Pad: 1100}}}
	chain3 := harness.Shape{Name: "chain3", Blocks: []harness.BlockSpec{{Edges: []harness.Edge{{To: 1}}}, {Edges: []harness.Edge{{To: 2, Form: harness.Inline}}}, {}}}
	for _, place := range c07Placements() {
		var extra []c07Case
		for _, b := range []uint64{1, 2, 3} {
			extra = append(extra, c07Case{Shape: wide, Sel: "all-d10", Place: place, Budget: b, Needed: 2, Variant: "wide-blocks"})
		}
		for _, b := range []uint64{1 << 31, 1 << 53, 1 << 62, 1<<63 + 5, ^uint64(0)} {
			extra = append(extra, c07Case{Shape: chain3, Sel: "all-d10", Place: place, Budget: b, Needed: 3, Variant: "huge-budget"})
		}
		if strings.Contains(place, "<") {
			// a small limit next to one beyond the signed range: the small one still wins
			for _, o := range []uint64{1 << 62, 1 << 63, 1<<63 + 5, ^uint64(0)} {
				for _, b := range []uint64{2, 3} {
					extra = append(extra, c07Case{Shape: chain3, Sel: "all-d10", Place: place, Budget: b, Other: o, Needed: 3, Variant: "small-next-to-huge"})
				}
			}
		}
		for _, cs := range extra {
			idx++
			if !c.Mine(idx) {
				continue
			}
			if strings.Contains(place, "<") && cs.Other == 0 {
				cs.Other = cs.Budget + 2
				if cs.Other < cs.Budget {
					cs.Other = ^uint64(0)
					cs.Budget -= 2
				}
			}
			sig, what := c07Run(cs)
			c.Res.Evaluations++
			c.Class(fmt.Sprintf("%s %s", place, cs.Variant))
			if sig != "" {
				if len(what) > 600 {
					what = what[:600] + "…"
				}
				c.Violate(sig+"/"+cs.Variant, what, cs)
			}
		}
	}
	chain5 := harness.Shape{Name: "chain5", Blocks: []harness.BlockSpec{{Edges: []harness.Edge{{To: 1}}}, {Edges: []harness.Edge{{To: 2}}}, {Edges: []harness.Edge{{To: 3, Form: harness.Inline}}}, {Edges: []harness.Edge{{To: 4}}}, {}}}
	for _, place := range []string{"resp-global", "resp-hook"} {
		for k := 1; k <= 3; k++ {
			for b := uint64(1); b <= 5; b++ {
				idx++
				if !c.Mine(idx) {
					continue
				}
				cs := c07Case{Shape: chain5, Sel: "all-d10", Place: place, Budget: b, Prefix: k, Needed: 5, Variant: "requestor-holds-prefix"}
				sig, what := c07Run(cs)
				c.Res.Evaluations++
				c.Class(fmt.Sprintf("%s requestor-holds-prefix", place))
				if sig != "" {
					c.Violate(sig, what, cs)
				}
			}
		}
	}
	for _, sh := range shapes {
		d := harness.Build(sh, "")
		for _, sn := range sels {
			sel := findSel(sn)
			all := make(harness.Split, len(sh.Blocks))
			for i := range all {
				all[i] = 2
			}
			_, rs := d.Stores(all)
			ref := harness.Reference(d.Root, sel.Node, harness.RefOpts{Remote: rs})
			needed := len(ref.Loads)
			for _, place := range c07Placements() {
				for b := 1; b <= needed+1; b++ {
					for _, localQ := range []bool{false, true} {
						if localQ && !strings.HasPrefix(place, "req") {
							continue
						}
						idx++
						if !c.Mine(idx) {
							continue
						}
						cs := c07Case{Shape: sh, Sel: sn, Place: place, Budget: uint64(b), LocalQ: localQ, Needed: needed}
						if strings.Contains(place, "<") {
							cs.Other = uint64(b + 2)
						}
						// budgets are per request: the same instances serve three requests in a row
						if sn == "all-d10" && !localQ && len(sh.Blocks) <= 3 {
							cs.Reqs = 3
						}
						sig, what := c07Run(cs)
						c.Res.Evaluations++
						rel := "under"
						if needed == b {
							rel = "exact"
						} else if needed > b {
							rel = "over"
						}
						c.Class(fmt.Sprintf("%s needed-%s-budget budget=%d", place, rel, min(b, 3)))
						if idx%211 == 0 {
							c.Sample(cs)
						}
						if sig != "" {
							c.Violate(sig, what, cs)
						}
					}
				}
			}
		}
	}
}

func init() {
	core.Register(&core.Prop{ID: "C07", Level: "exploration",
		Rule:        "chains of 1..5 blocks and the tree/diamond catalogue x 3 selectors x every budget 1..needed+1 x 8 placements (global / per-request hook on requestor or responder, and both with the smaller one winning) x requestor store empty or complete; one real two-node exchange each; a class is a distinct (placement, needed vs budget relation, budget size) combination",
		Assumptions: []string{"blocks loaded by the requestor are counted as delivered block-root nodes; blocks loaded by the responder as link-metadata entries on the wire", "default schedule"},
		Run:         runC07, QuickBudget: 200, ThoroughBudget: 1200,
		Replay: func(raw json.RawMessage) string {
			var cs c07Case
			if err := json.Unmarshal(raw, &cs); err != nil {
				return err.Error()
			}
			sig, what := c07Run(cs)
			if sig == "" {
				return "ok"
			}
			return sig + ": " + what
		}})
}
