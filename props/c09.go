package props

import (
	"encoding/json"
	"errors"
	"fmt"
	"strings"

	blocks "github.com/ipfs/go-block-format"
	"github.com/ipfs/go-cid"
	"github.com/ipfs/go-graphsync"
	gsmsg "github.com/ipfs/go-graphsync/message"
	"github.com/ipfs/go-graphsync/zzverif/vsched"
	cidlink "github.com/ipld/go-ipld-prime/linking/cid"
	"github.com/ipld/go-ipld-prime/node/basicnode"
	"github.com/libp2p/go-libp2p/core/peer"

	"verif/core"
	"verif/harness"
)

// C09: responses from other peers cannot affect a request (DESIGN 6 C09).
// Real requestor Q and real responder A; a scripted third peer T injects
// response messages carrying the request's id at every position of the
// genuine exchange. Differential oracle vs. the run without T.

type c09Msg struct {
	Status graphsync.ResponseStatusCode `json:"status"`
	MD     string                       `json:"metadata"` // none | next | wrong | root-missing
	Block  string                       `json:"block"`    // none | right | junk
	Ext    bool                         `json:"ext"`
}

type c09Case struct {
	Hooks string   `json:"hooks"`     // record | terminate-on-ext | update-on-ext
	Pos   []int    `json:"positions"` // inject after this many delivery events (one entry per injection)
	Msgs  []c09Msg `json:"messages"`
	Burst bool     `json:"burst,omitempty"` // the injection follows the next genuine delivery without quiescence in between
}

func (c c09Case) String() string {
	var p []string
	for i, m := range c.Msgs {
		p = append(p, fmt.Sprintf("after %d deliveries: status=%s md=%s block=%s ext=%v", c.Pos[i], m.Status, m.MD, m.Block, m.Ext))
	}
	b := ""
	if c.Burst {
		b = " (each right behind the next genuine message)"
	}
	return fmt.Sprintf("hooks=%s third peer sends [%s]%s", c.Hooks, strings.Join(p, "; "), b)
}

type c09Obs struct {
	visits     string
	errs       []string
	closed     bool
	toA        []string // Q's wire messages to A: request types + extension names
	toT        int      // wire messages from Q to T
	hookLog    []string // response/block hook calls for the request id (peer included)
	hooksWithT int
	store      string
	panicked   string
	steps      int
}

func c09Run(cs c09Case) *c09Obs {
	o := &c09Obs{}
	sh := harness.Shape{Name: "chain3", Blocks: []harness.BlockSpec{{Edges: []harness.Edge{{To: 1}}}, {Edges: []harness.Edge{{To: 2, Form: harness.Inline}}}, {}}}
	d := harness.Build(sh, "c09")
	junk := harness.Build(sh, "c09-junk")
	sel := harness.RecAll(10)
	s := vsched.Run(vsched.Config{Fast: true}, func() {
		f := harness.NewFixture(true)
		qs, as := d.Stores(harness.Split{2, 2, 2})
		q := f.AddNode(peer.ID("Q"), qs)
		a := f.AddNode(peer.ID("A"), as)
		tn := f.AddScript(peer.ID("T"))
		_ = tn
		id := harness.MkID(1)
		q.GS.RegisterIncomingResponseHook(func(p peer.ID, r graphsync.ResponseData, ha graphsync.IncomingResponseHookActions) {
			if r.RequestID() != id {
				return
			}
			o.hookLog = append(o.hookLog, fmt.Sprintf("response-hook peer=%s status=%s", p, r.Status()))
			if p == peer.ID("T") {
				o.hooksWithT++
			}
			if _, has := r.Extension("x/t"); has {
				switch cs.Hooks {
				case "terminate-on-ext":
					ha.TerminateWithError(errors.New("hook refuses"))
				case "update-on-ext":
					ha.UpdateRequestWithExtensions(graphsync.ExtensionData{Name: "x/u", Data: basicnode.NewInt(1)})
				}
			}
		})
		q.GS.RegisterIncomingBlockHook(func(p peer.ID, r graphsync.ResponseData, b graphsync.BlockData, ha graphsync.IncomingBlockHookActions) {
			if r.RequestID() != id {
				return
			}
			_, ext := r.Extension("x/t")
			o.hookLog = append(o.hookLog, fmt.Sprintf("block-hook peer=%s block=%s last-status=%s ext=%v", p, d.Name(b.Link()), r.Status(), ext))
			if p == peer.ID("T") {
				o.hooksWithT++
			}
		})
		res := q.Request(f, a.ID, d.Root, sel, id)
		vsched.Quiesce()
		deliveries := 0
		injected := 0
		evs := f.Deliveries(q.ID, a.ID)
		for _, e := range evs {
			do := e.Do
			e.Do = func() { deliveries++; do() }
		}
		inject := &harness.Event{
			Name:    "inject",
			Enabled: func() bool { return injected < len(cs.Msgs) && deliveries >= cs.Pos[injected] },
			Do: func() {
				m := cs.Msgs[injected]
				injected++
				if cs.Burst {
					// the next genuine message arrives first; the third peer's follows before anything else runs
					f.Net.Node(q.ID).DeliverNext(a.ID)
				}
				var md []gsmsg.GraphSyncLinkMetadatum
				lk := func(l int) cid.Cid { return d.Links[l].(cidlink.Link).Cid }
				switch m.MD {
				case "next":
					md = append(md, gsmsg.GraphSyncLinkMetadatum{Link: lk(min(deliveries/2, 2)), Action: graphsync.LinkActionPresent})
				case "wrong":
					md = append(md, gsmsg.GraphSyncLinkMetadatum{Link: junk.Links[1].(cidlink.Link).Cid, Action: graphsync.LinkActionPresent})
				case "root-missing":
					md = append(md, gsmsg.GraphSyncLinkMetadatum{Link: lk(0), Action: graphsync.LinkActionMissing})
				}
				var exts []graphsync.ExtensionData
				if m.Ext {
					exts = append(exts, graphsync.ExtensionData{Name: "x/t", Data: basicnode.NewString("from T")})
				}
				bl := map[cid.Cid]blocks.Block{}
				switch m.Block {
				case "right":
					i := min(deliveries/2, 2)
					b, _ := blocks.NewBlockWithCid(d.Data[i], lk(i))
					bl[b.Cid()] = b
				case "junk":
					b, _ := blocks.NewBlockWithCid(junk.Data[1], junk.Links[1].(cidlink.Link).Cid)
					bl[b.Cid()] = b
				}
				rsp := gsmsg.NewResponse(id, m.Status, md, exts...)
				f.Net.Node(q.ID).Inject(peer.ID("T"), gsmsg.NewMessage(nil, map[graphsync.RequestID]gsmsg.GraphSyncResponse{id: rsp}, bl))
			},
		}
		evs = append([]*harness.Event{inject}, evs...)
		o.steps = len(harness.RunEvents(evs, 100))
		o.visits = harness.VisitsString(res.Visits)
		o.errs = res.ErrStrings(d)
		o.closed = res.Closed()
		o.store = strings.Join(qs.Keys(), ",")
		for _, w := range f.Net.Wire {
			if w.From != q.ID {
				continue
			}
			if w.To == peer.ID("T") {
				o.toT++
				continue
			}
			for _, rq := range w.Msg.Requests() {
				var names []string
				for _, n := range rq.ExtensionNames() {
					names = append(names, string(n))
				}
				o.toA = append(o.toA, fmt.Sprintf("%s%v", rq.Type(), harness.SortedStrings(names)))
			}
		}
		f.Cancel()
	})
	if s.Panic != nil {
		o.panicked = fmt.Sprint(s.Panic)
	}
	return o
}

// c09RunSched: schedule-level variant. Auto network; the third peer's message
// is injected by its own thread right after the request was issued, so where it
// lands relative to the processing of the genuine responses is decided by the
// scheduler.
func c09RunSched(cfg vsched.Config, m c09Msg) (*c09Obs, *vsched.Sched) {
	o := &c09Obs{}
	sh := harness.Shape{Name: "chain3", Blocks: []harness.BlockSpec{{Edges: []harness.Edge{{To: 1}}}, {Edges: []harness.Edge{{To: 2, Form: harness.Inline}}}, {}}}
	d := harness.Build(sh, "c09")
	sel := harness.RecAll(10)
	s := vsched.Run(cfg, func() {
		f := harness.NewFixture(false)
		qs, as := d.Stores(harness.Split{2, 2, 2})
		q := f.AddNode(peer.ID("Q"), qs)
		a := f.AddNode(peer.ID("A"), as)
		f.AddScript(peer.ID("T"))
		id := harness.MkID(1)
		q.GS.RegisterIncomingResponseHook(func(p peer.ID, r graphsync.ResponseData, ha graphsync.IncomingResponseHookActions) {
			if r.RequestID() == id && p == peer.ID("T") {
				o.hooksWithT++
			}
		})
		q.GS.RegisterIncomingBlockHook(func(p peer.ID, r graphsync.ResponseData, b graphsync.BlockData, ha graphsync.IncomingBlockHookActions) {
			if r.RequestID() != id {
				return
			}
			_, ext := r.Extension("x/t")
			if p == peer.ID("T") {
				o.hooksWithT++
			}
			if ext || (r.Status() != graphsync.PartialResponse && r.Status() != graphsync.RequestCompletedFull) {
				o.hookLog = append(o.hookLog, fmt.Sprintf("block-hook peer=%s block=%s last-status=%s ext=%v", p, d.Name(b.Link()), r.Status(), ext))
			}
		})
		res := q.Request(f, a.ID, d.Root, sel, id)
		vsched.GoN("third-peer", func() {
			var md []gsmsg.GraphSyncLinkMetadatum
			if m.MD == "next" {
				md = append(md, gsmsg.GraphSyncLinkMetadatum{Link: d.Links[1].(cidlink.Link).Cid, Action: graphsync.LinkActionPresent})
			}
			bl := map[cid.Cid]blocks.Block{}
			if m.Block == "right" {
				b, _ := blocks.NewBlockWithCid(d.Data[1], d.Links[1].(cidlink.Link).Cid)
				bl[b.Cid()] = b
			}
			var exts []graphsync.ExtensionData
			if m.Ext {
				exts = append(exts, graphsync.ExtensionData{Name: "x/t", Data: basicnode.NewString("from T")})
			}
			rsp := gsmsg.NewResponse(id, m.Status, md, exts...)
			f.Net.Node(q.ID).Inject(peer.ID("T"), gsmsg.NewMessage(nil, map[graphsync.RequestID]gsmsg.GraphSyncResponse{id: rsp}, bl))
		})
		vsched.Quiesce()
		o.visits = harness.VisitsString(res.Visits)
		o.errs = res.ErrStrings(d)
		o.closed = res.Closed()
		for _, w := range f.Net.Wire {
			if w.From == q.ID && w.To == peer.ID("T") {
				o.toT++
			}
			if w.From == q.ID && w.To == a.ID {
				for _, rq := range w.Msg.Requests() {
					o.toA = append(o.toA, string(rq.Type()))
				}
			}
		}
		f.Cancel()
	})
	if s.Panic != nil {
		o.panicked = fmt.Sprint(s.Panic)
	}
	return o, s
}

func c09JudgeSched(m c09Msg, o *c09Obs) *core.Violation {
	base, ok := c09Base["sched"]
	if !ok {
		base = c09Run(c09Case{Hooks: "record"})
		c09Base["sched"] = base
	}
	v := func(sig, what string) *core.Violation {
		return &core.Violation{Signature: sig + "/schedule", What: fmt.Sprintf("third peer's message (status=%s md=%s block=%s ext=%v) racing with the genuine exchange: %s", m.Status, m.MD, m.Block, m.Ext, what), Replay: m}
	}
	switch {
	case o.panicked != "":
		return v("panic", o.panicked)
	case o.hooksWithT > 0:
		return v("hook-invoked-for-third-peer", fmt.Sprintf("%d hook call(s) with the third peer as sender", o.hooksWithT))
	case len(o.hookLog) > 0:
		return v("third-peer-data-reached-block-hooks", fmt.Sprintf("a block hook of the request was handed the third peer's status/extension as the latest response: %v", o.hookLog))
	case o.toT > 0:
		return v("message-sent-to-third-peer", fmt.Sprintf("%d message(s) to the third peer", o.toT))
	case strings.Join(o.toA, " ") != "New":
		return v("messages-sent-on-behalf-of-third-peer", fmt.Sprintf("requests sent to the real responder: %v", o.toA))
	case !o.closed || len(o.errs) > 0:
		return v("request-outcome-changed", fmt.Sprintf("errors %v closed=%v", o.errs, o.closed))
	case o.visits != base.visits:
		return v("delivered-data-changed", fmt.Sprintf("delivered [%s]", shorten(o.visits)))
	}
	return nil
}

var c09Base = map[string]*c09Obs{}

func c09Judge(cs c09Case, o *c09Obs) (sig, what string) {
	base, ok := c09Base[cs.Hooks]
	if !ok {
		base = c09Run(c09Case{Hooks: cs.Hooks})
		c09Base[cs.Hooks] = base
	}
	if o.panicked != "" {
		return "panic", o.panicked
	}
	if o.hooksWithT > 0 {
		return "hook-invoked-for-third-peer", fmt.Sprintf("the requestor's hooks ran %d time(s) with the third peer as sender for the request's id: %v", o.hooksWithT, o.hookLog)
	}
	if o.toT > 0 {
		return "message-sent-to-third-peer", fmt.Sprintf("%d message(s) left the requestor towards the third peer", o.toT)
	}
	if strings.Join(o.toA, " ") != strings.Join(base.toA, " ") {
		return "messages-sent-on-behalf-of-third-peer", fmt.Sprintf("requests sent to the real responder: %v, without the third peer: %v", o.toA, base.toA)
	}
	if o.closed != base.closed || strings.Join(o.errs, ";") != strings.Join(base.errs, ";") {
		return "request-outcome-changed", fmt.Sprintf("errors %v closed=%v, without the third peer: %v closed=%v", o.errs, o.closed, base.errs, base.closed)
	}
	if o.visits != base.visits {
		return "delivered-data-changed", fmt.Sprintf("delivered [%s], without the third peer [%s]", shorten(o.visits), shorten(base.visits))
	}
	if o.store != base.store {
		return "stored-blocks-changed", "the requestor's store differs from the run without the third peer"
	}
	if strings.Join(o.hookLog, "|") != strings.Join(base.hookLog, "|") {
		return "hook-observations-changed", fmt.Sprintf("hook calls %v, without the third peer %v", o.hookLog, base.hookLog)
	}
	return "", ""
}

var c09Statuses = []graphsync.ResponseStatusCode{
	graphsync.RequestAcknowledged, graphsync.AdditionalPeers, graphsync.NotEnoughGas, graphsync.OtherProtocol, graphsync.PartialResponse, graphsync.RequestPaused,
	graphsync.RequestCompletedFull, graphsync.RequestCompletedPartial,
	graphsync.RequestRejected, graphsync.RequestFailedBusy, graphsync.RequestFailedUnknown, graphsync.RequestFailedLegal, graphsync.RequestFailedContentNotFound, graphsync.RequestCancelled,
}

func runC09(c *core.Ctx) {
	var msgs []c09Msg
	for _, st := range c09Statuses {
		for _, md := range []string{"none", "next", "wrong", "root-missing"} {
			for _, b := range []string{"none", "right", "junk"} {
				for _, e := range []bool{false, true} {
					msgs = append(msgs, c09Msg{st, md, b, e})
				}
			}
		}
	}
	nsteps := c09Run(c09Case{Hooks: "record"}).steps
	var idx int64
	for _, hooks := range []string{"record", "terminate-on-ext", "update-on-ext"} {
		for pos := 0; pos <= nsteps; pos++ {
			for _, m := range msgs {
				idx++
				if !c.Mine(idx) {
					continue
				}
				if c.Expired() {
					c.Res.Exhaustive = false
					return
				}
				for _, burst := range []bool{false, true} {
					cs := c09Case{Hooks: hooks, Pos: []int{pos}, Msgs: []c09Msg{m}, Burst: burst}
					o := c09Run(cs)
					sig, what := c09Judge(cs, o)
					c.Res.Evaluations++
					c.Res.Traces++
					c.Res.Transitions += int64(o.steps)
					c.Class(fmt.Sprintf("hooks=%s pos=%d terminal=%v burst=%v", hooks, pos, m.Status.IsTerminal(), burst))
					if idx%1013 == 0 {
						c.Sample(cs.String())
					}
					if sig != "" {
						c.Violate(sig+"/"+hooks, cs.String()+": "+what, cs)
					}
				}
			}
		}
		// two injections (thorough: all pairs of a reduced set; quick: a diagonal)
		red := []c09Msg{{graphsync.RequestCompletedFull, "next", "right", true}, {graphsync.RequestFailedUnknown, "none", "none", false}, {graphsync.PartialResponse, "wrong", "junk", true}, {graphsync.RequestPaused, "root-missing", "none", false}}
		for p1 := 0; p1 <= nsteps; p1++ {
			for p2 := p1; p2 <= nsteps; p2++ {
				for i, m1 := range red {
					for j, m2 := range red {
						if !c.Thorough() && (i+j)%2 == 1 {
							continue
						}
						idx++
						if !c.Mine(idx) {
							continue
						}
						cs := c09Case{Hooks: hooks, Pos: []int{p1, p2}, Msgs: []c09Msg{m1, m2}}
						o := c09Run(cs)
						sig, what := c09Judge(cs, o)
						c.Res.Evaluations++
						c.Res.Traces++
						c.Res.Transitions += int64(o.steps)
						c.Class(fmt.Sprintf("hooks=%s two-injections", hooks))
						if sig != "" {
							c.Violate(sig+"/"+hooks, cs.String()+": "+what, cs)
						}
					}
				}
			}
		}
	}
	c.Res.States = c.Res.Evaluations
	// schedule-level part
	sm := []c09Msg{{graphsync.RequestRejected, "none", "none", true}, {graphsync.RequestCompletedFull, "next", "right", true}, {graphsync.RequestPaused, "none", "none", true}, {graphsync.RequestFailedUnknown, "none", "none", false}}
	bound := 1
	if c.Thorough() {
		bound = 2
	}
	for _, m := range sm {
		m := m
		if c.Expired() {
			c.Res.Exhaustive = false
			return
		}
		c.Explore(core.ExploreOpts{MaxBound: bound, Cost: core.Deviation, Label: m, MaxExecs: 60000}, func(cfg vsched.Config) core.Exec {
			o, s := c09RunSched(cfg, m)
			return core.Exec{Sched: s, Outcome: fmt.Sprintf("sched status=%s errs=%d", m.Status, len(o.errs)), Viol: c09JudgeSched(m, o)}
		})
		if c.Mine(int64(m.Status)) {
			c.ExploreSlow(m, vsched.Config{}, []int{0, 150, 300}, func(cfg vsched.Config) core.Exec {
				o, s := c09RunSched(cfg, m)
				return core.Exec{Sched: s, Outcome: fmt.Sprintf("sched status=%s errs=%d", m.Status, len(o.errs)), Viol: c09JudgeSched(m, o)}
			})
		}
	}
}

func init() {
	core.Register(&core.Prop{ID: "C09", Level: "model_checking",
		Rule:        "a real requestor fetches a 3-block chain from a real responder over the gated network; a third peer's response message for the same request id - every status code (14) x metadata {none, the link expected next, a foreign link, root missing} x block {none, the right block, a foreign block} x extension {no, yes} - is injected after every number of delivery events (every position of the genuine exchange), singly and in pairs, for three requestor hook set-ups (recording; response hook terminates on the extension; response hook answers the extension with an update); a class is (hook set-up, position, terminal status or not); plus, on the auto network, 4 third-peer messages injected by their own thread, all schedules within the deviation bound",
		Assumptions: []string{"differential oracle: the same exchange without the third peer", "event-level positions (message granularity), default schedule inside an event"},
		Run:         runC09, QuickBudget: 300, ThoroughBudget: 1800,
		Replay: func(raw json.RawMessage) string {
			var w struct {
				Label  *c09Msg `json:"label"`
				Prefix []int   `json:"prefix"`
			}
			if json.Unmarshal(raw, &w) == nil && w.Label != nil && w.Label.Status != 0 {
				o, _ := c09RunSched(core.CfgFromReplay(raw), *w.Label)
				if v := c09JudgeSched(*w.Label, o); v != nil {
					return v.Signature + ": " + v.What
				}
				return "ok"
			}
			var cs c09Case
			if err := json.Unmarshal(raw, &cs); err != nil {
				return err.Error()
			}
			sig, what := c09Judge(cs, c09Run(cs))
			if sig == "" {
				return "ok"
			}
			return sig + ": " + what
		}})
}
