package props

import (
	"context"
	"encoding/json"
	"fmt"
	"os"
	"sort"
	"strings"

	"github.com/ipfs/go-graphsync"
	gsimpl "github.com/ipfs/go-graphsync/impl"
	gsmsg "github.com/ipfs/go-graphsync/message"
	"github.com/ipfs/go-graphsync/zzverif/vsched"
	"github.com/libp2p/go-libp2p/core/peer"

	"verif/core"
	"verif/harness"
)

// C06: pausing and resuming an exchange does not change its result (DESIGN 6
// C06). Two real instances, gated network, event-level exploration.

type c06Case struct {
	Shape harness.Shape `json:"shape"`
	Sel   string        `json:"selector"`
	Split harness.Split `json:"split"`
	Mode  string        `json:"pause"`                       // none | req-hook | resp-hook | resp-reqhook | req-api | resp-api
	At    int           `json:"at"`                          // block index (hooks) or number of delivery events before the API call
	Batch bool          `json:"responder_batches,omitempty"` // the responder's first message stalls until the whole response is queued behind it: the rest arrives in one message, so a requestor-side pause leaves unread entries queued
}

func (c c06Case) String() string {
	b := ""
	if c.Batch {
		b = " (responder's first send stalls, the rest of the response arrives in one message)"
	}
	return fmt.Sprintf("shape %s selector %s split %s pause %s@%d%s", c.Shape, c.Sel, c.Split, c.Mode, c.At, b)
}

type c06Obs struct {
	visits              string
	missing             []string
	otherErrs           []string
	store               string
	closed              bool
	paused              bool // the pause actually happened
	unpauseErrs         int
	blocksWhilePaused   int
	trace               []string
	panicked            string
	nWire               int
	inflightAtUnpause   int
	pauseErr            string
	unpauses            int
	coincide            bool
	apiPauseAtHookCount int
	lastStatus          string // the last status the responder put on the wire for the request
	resumed             bool   // the unpause call was made and accepted
}

func c06Run(cfg vsched.Config, cs c06Case) (*c06Obs, *vsched.Sched) {
	o := &c06Obs{}
	d := harness.Build(cs.Shape, "")
	sel := findSel(cs.Sel)
	s := vsched.Run(cfg, func() {
		f := harness.NewFixture(true)
		qs, rs := d.Stores(cs.Split)
		q := f.AddNode(peer.ID("Q"), qs)
		var ropts []gsimpl.Option
		if cs.Mode == "resp-api-held" {
			// a one-block allowance: while a send is stalled the traversal waits for memory, so the API pause
			// is picked up at whatever link comes next once the send is released
			one := 0
			for _, b := range d.Data {
				one = max(one, len(b))
			}
			ropts = append(ropts, gsimpl.MaxMemoryPerPeerResponder(uint64(one)))
		}
		r := f.AddNode(peer.ID("R"), rs, ropts...)
		if cs.Mode == "resp-api-held" {
			f.Net.SendFault = func(from, to peer.ID, k int, m gsmsg.GraphSyncMessage) harness.FaultAction {
				if from == r.ID && k >= cs.At {
					return harness.SendHold
				}
				return harness.SendOK
			}
		}
		if cs.Batch || cs.Mode == "resp-hook-held" {
			f.Net.SendFault = func(from, to peer.ID, k int, m gsmsg.GraphSyncMessage) harness.FaultAction {
				if from == r.ID && k == 0 {
					return harness.SendHold
				}
				return harness.SendOK
			}
		}
		id := harness.MkID(1)
		hookPaused := false // set by a hook when it asks for the pause
		apiPaused := false
		resumed := false
		nIn, nOut := 0, 0
		switch cs.Mode {
		case "req-hook", "req-both", "req-hook-while-resp-paused":
			if cs.Mode == "req-hook-while-resp-paused" {
				// the responder has paused itself one block further on by the time the requestor pauses: the
				// requestor's cancel reaches a paused response, and the re-issued request starts a fresh one
				rOnce := false
				nR := 0
				r.GS.RegisterOutgoingBlockHook(func(p peer.ID, rd graphsync.RequestData, b graphsync.BlockData, ha graphsync.OutgoingBlockHookActions) {
					nR++
					if nR == cs.At+1 && !rOnce {
						rOnce = true
						ha.PauseResponse()
					}
				})
			}
			q.GS.RegisterIncomingBlockHook(func(p peer.ID, rd graphsync.ResponseData, b graphsync.BlockData, ha graphsync.IncomingBlockHookActions) {
				nIn++
				if nIn == cs.At && !hookPaused {
					hookPaused = true
					ha.PauseRequest()
				}
			})
		case "resp-hook", "resp-hook-held":
			r.GS.RegisterOutgoingBlockHook(func(p peer.ID, rd graphsync.RequestData, b graphsync.BlockData, ha graphsync.OutgoingBlockHookActions) {
				nOut++
				if nOut == cs.At && !hookPaused {
					hookPaused = true
					ha.PauseResponse()
				}
			})
		case "resp-reqhook":
			r.GS.RegisterIncomingRequestHook(func(p peer.ID, rd graphsync.RequestData, ha graphsync.IncomingRequestHookActions) {
				if !hookPaused {
					hookPaused = true
					ha.PauseResponse()
				}
			})
		}
		// wire monitor: block data from R after the paused status left and before the unpause call
		pausedOnWire := false
		f.Net.OnWire = func(w *harness.Wire) {
			if w.From != r.ID {
				return
			}
			for _, rsp := range w.Msg.Responses() {
				if rsp.RequestID() == id && rsp.Status() == graphsync.RequestPaused {
					pausedOnWire = true
					return // blocks travelling with the paused status itself were queued before it
				}
			}
			if pausedOnWire && !resumed && strings.HasPrefix(cs.Mode, "resp") && len(w.Msg.Blocks()) > 0 {
				o.blocksWhilePaused += len(w.Msg.Blocks())
			}
		}
		res := q.Request(f, r.ID, d.Root, sel.Node, id)
		vsched.Quiesce()
		deliveries := 0
		evs := f.Deliveries(q.ID, r.ID)
		for _, e := range evs {
			do := e.Do
			e.Do = func() { deliveries++; do() }
		}
		side := q
		if strings.HasPrefix(cs.Mode, "resp") {
			side = r
		}
		if cs.Mode == "resp-api-held" {
			released, tried := false, false
			evs = append([]*harness.Event{
				{Name: "pause", Enabled: func() bool { return !tried && f.Net.Held > 0 && !res.Closed() }, Do: func() {
					tried = true
					if err := side.GS.Pause(context.Background(), id); err == nil {
						apiPaused = true
					} else {
						st := r.GS.Stats()
						o.pauseErr = fmt.Sprintf("%s; states=%v stats=%+v held=%d wire=%d", err.Error(), r.GS.(*gsimpl.GraphSync).PeerState(q.ID).IncomingState.RequestStates, st.OutgoingResponses, f.Net.Held, len(f.Net.Wire))
					}
				}},
				{Name: "release", Enabled: func() bool { return !released && f.Net.Held > 0 && tried }, Do: func() { released = true; f.Net.ReleaseHeld() }},
			}, evs...)
		}
		if cs.Batch {
			released := false
			evs = append([]*harness.Event{{Name: "release", Enabled: func() bool { return !released && f.Net.Held > 0 }, Do: func() { released = true; f.Net.ReleaseHeld() }}}, evs...)
		}
		if cs.Mode == "resp-hook-held" {
			// the responder's first send stays stalled across the pause and the resume: the paused status and
			// whatever follows the resume are queued behind it, in the same pending message
			released := false
			evs = append(evs, &harness.Event{Name: "release", Enabled: func() bool { return !released && f.Net.Held > 0 && (resumed || !hookPaused) }, Do: func() { released = true; f.Net.ReleaseHeld() }})
		}
		if cs.Mode == "req-both" {
			// an API pause accepted just before the block at which the block hook also asks for a pause
			tried := false
			evs = append([]*harness.Event{{
				Name: "pause",
				Enabled: func() bool {
					return !tried && len(f.Net.Node(r.ID).Inbox) > 0 && len(f.Net.Node(q.ID).Inbox) >= cs.At-1 && !res.Closed()
				},
				Do: func() {
					tried = true
					if err := q.GS.Pause(context.Background(), id); err == nil {
						apiPaused = true
						o.apiPauseAtHookCount = nIn
					}
				},
			}}, evs...)
		}
		if strings.HasSuffix(cs.Mode, "-api") {
			evs = append([]*harness.Event{{
				Name:    "pause",
				Enabled: func() bool { return !apiPaused && deliveries >= cs.At && !res.Closed() },
				Do: func() {
					apiPaused = true
					if err := side.GS.Pause(context.Background(), id); err != nil {
						apiPaused = false
						cs.At = 1 << 30 // the request is no longer pausable (finished): stop trying
					}
				},
			}}, evs...)
		}
		evs = append(evs, &harness.Event{
			Name: "unpause",
			Enabled: func() bool {
				if cs.Mode == "req-both" {
					// every pause is resumed; how many pauses there were is judged
					st, ok := q.GS.(*gsimpl.GraphSync).PeerState(r.ID).OutgoingState.RequestStates[id]
					return ok && st == graphsync.Paused && !res.Closed() && o.unpauses < 4
				}
				return (hookPaused || apiPaused) && !resumed && !res.Closed()
			},
			Do: func() {
				// (several resumes may happen: any of them with messages of the cancelled response in flight counts)
				o.inflightAtUnpause = max(o.inflightAtUnpause, f.Net.Node(q.ID).Pending(r.ID)+f.Net.Node(r.ID).Pending(q.ID))
				if cs.Mode == "req-both" {
					if o.unpauses == 0 {
						// did the hook's pause and the API's pause land on the same block?
						o.coincide = hookPaused && apiPaused && nIn == cs.At && o.apiPauseAtHookCount == cs.At-1
					}
					if err := side.GS.Unpause(context.Background(), id); err == nil {
						o.unpauses++
					} else {
						o.unpauseErrs++
					}
					return
				}
				if err := side.GS.Unpause(context.Background(), id); err != nil {
					o.unpauseErrs++
					if o.unpauseErrs > 3 {
						resumed = true
					}
					return
				}
				resumed = true
			},
		})
		if cs.Mode == "req-hook-while-resp-paused" {
			// natural ending: a response that is (still, or again) paused once the requestor has been resumed is resumed too
			evs = append(evs, &harness.Event{
				Name: "r-unpause",
				Enabled: func() bool {
					if !resumed && hookPaused {
						return false
					}
					st, ok := r.GS.(*gsimpl.GraphSync).PeerState(q.ID).IncomingState.RequestStates[id]
					return ok && st == graphsync.Paused && !res.Closed()
				},
				Do: func() { _ = r.GS.Unpause(context.Background(), id) },
			})
		}
		o.trace = harness.RunEvents(evs, 200)
		o.paused = hookPaused || apiPaused
		o.visits = harness.VisitsString(res.Visits)
		for _, e := range res.ErrStrings(d) {
			if strings.HasPrefix(e, "missing:") {
				o.missing = append(o.missing, e)
			} else {
				o.otherErrs = append(o.otherErrs, e)
			}
		}
		sort.Strings(o.missing)
		o.closed = res.Closed()
		o.store = strings.Join(qs.Keys(), ",")
		o.nWire = len(f.Net.Wire)
		o.resumed = resumed
		for _, w := range f.Net.Wire {
			if w.From == r.ID {
				for _, rsp := range w.Msg.Responses() {
					if rsp.RequestID() == id {
						o.lastStatus = rsp.Status().String()
					}
				}
			}
		}
		if os.Getenv("VERIF_VERBOSE") != "" {
			for i, w := range f.Net.Wire {
				var st []string
				for _, rsp := range w.Msg.Responses() {
					st = append(st, fmt.Sprintf("%s md=%d", rsp.Status(), rsp.Metadata().Length()))
				}
				fmt.Printf("wire %d from %s: %v blocks=%d\n", i, w.From, st, len(w.Msg.Blocks()))
			}
		}
		f.Cancel()
	})
	if s.Panic != nil {
		o.panicked = fmt.Sprint(s.Panic)
	}
	return o, s
}

var c06Base = map[string]*c06Obs{}

func c06Judge(cs c06Case, o *c06Obs) *core.Violation {
	key := fmt.Sprintf("%s|%s|%s", cs.Shape, cs.Sel, cs.Split)
	base, ok := c06Base[key]
	if !ok {
		b := cs
		b.Mode, b.At, b.Batch = "none", 0, false
		base, _ = c06Run(vsched.Config{Fast: true}, b)
		c06Base[key] = base
	}
	v := func(sig, what string) *core.Violation {
		// cause: a requestor-side resume issued while messages of the cancelled
		// incarnation are still in flight (they carry the same request id)
		if strings.HasPrefix(cs.Mode, "req-") && o.inflightAtUnpause == 0 && (sig == "delivered-nodes-differ" || sig == "errors-differ") {
			// cause: after a resume the requestor asks the responder to skip the blocks it has traversed, but the
			// responder counts the links of its own traversal, which differs when it lacks a block inside that
			// prefix: a block only the responder holds falls into the skipped window (C02's skip-prefix finding
			// seen through pause/resume)
			lacksR := false
			for _, v := range cs.Split {
				lacksR = lacksR || v&2 == 0
			}
			extraHeldByR := len(o.missing) > len(base.missing)
			for _, m := range o.missing {
				inBase := false
				for _, b := range base.missing {
					inBase = inBase || b == m
				}
				if !inBase {
					var bi int
					if _, err := fmt.Sscanf(m, "missing:b%d@", &bi); err != nil || bi >= len(cs.Split) || cs.Split[bi]&2 == 0 {
						extraHeldByR = false
					}
				}
			}
			if lacksR && extraHeldByR && len(o.otherErrs) == 0 {
				sig = "resume-skip-window-misaligned/responder-lacks-block-inside-traversed-prefix"
			}
		}
		if strings.HasPrefix(cs.Mode, "req-") && o.inflightAtUnpause > 0 && sig != "panic" && sig != "block-data-sent-while-paused" {
			sig = "requestor-resume-while-old-response-in-flight/stale-messages-taken-for-the-new-request"
		}
		return &core.Violation{Signature: sig + "/" + cs.Mode, What: fmt.Sprintf("%s, events [%s] (%d messages in flight at the unpause call): %s", cs, strings.Join(o.trace, ", "), o.inflightAtUnpause, what), Replay: cs}
	}
	if o.panicked != "" {
		return v("panic", o.panicked)
	}
	if base.panicked != "" || !base.closed {
		return nil // the uninterrupted exchange itself is broken: C02's subject
	}
	if !o.closed {
		return v("never-completes-after-resume", fmt.Sprintf("the request did not terminate (unpause errors: %d); uninterrupted it delivers [%s]", o.unpauseErrs, shorten(base.visits)))
	}
	if cs.Mode == "req-both" && o.coincide && o.unpauses > 1 {
		return v("paused-again-after-resume", fmt.Sprintf("the block hook and the API asked for a pause at the same block, yet after resuming once the request paused again (%d resumes were needed)", o.unpauses))
	}
	if o.blocksWhilePaused > 0 {
		return v("block-data-sent-while-paused", fmt.Sprintf("%d blocks left the responder after the paused status and before the unpause call", o.blocksWhilePaused))
	}
	if o.visits != base.visits {
		return v("delivered-nodes-differ", fmt.Sprintf("delivered [%s], uninterrupted [%s]; errors %v / %v", shorten(o.visits), shorten(base.visits), append(o.missing, o.otherErrs...), append(base.missing, base.otherErrs...)))
	}
	if strings.Join(o.missing, ";") != strings.Join(base.missing, ";") || strings.Join(o.otherErrs, ";") != strings.Join(base.otherErrs, ";") {
		return v("errors-differ", fmt.Sprintf("errors %v, uninterrupted %v", append(o.missing, o.otherErrs...), append(base.missing, base.otherErrs...)))
	}
	if strings.HasPrefix(cs.Mode, "resp") && o.resumed && o.lastStatus != base.lastStatus {
		return v("final-status-differs", fmt.Sprintf("the responder's last status on the wire is %s, uninterrupted %s", o.lastStatus, base.lastStatus))
	}
	if o.store != base.store {
		return v("stored-blocks-differ", fmt.Sprintf("requestor store holds %d keys, uninterrupted %d", strings.Count(o.store, ",")+1, strings.Count(base.store, ",")+1))
	}
	return nil
}

func c06Cases(thorough bool) []c06Case {
	var out []c06Case
	shapes := harness.Shapes(3, 1, false, false, false)
	chain4 := harness.Shape{Name: "chain4", Blocks: []harness.BlockSpec{{Edges: []harness.Edge{{To: 1}}}, {Edges: []harness.Edge{{To: 2, Form: harness.Inline}}}, {Edges: []harness.Edge{{To: 3, Form: harness.List}}}, {}}}
	fan4 := harness.Shape{Name: "fan4", Blocks: []harness.BlockSpec{{Edges: []harness.Edge{{To: 1}, {To: 2, Form: harness.Inline}, {To: 3, Form: harness.List}}}, {}, {}, {}}}
	shapes = append(shapes, chain4, fan4)
	if thorough {
		shapes = harness.Shapes(4, 1, true, true, true)
	}
	sels := []string{"all-d10"}
	if thorough {
		sels = append(sels, "field-e0-then-all", "all-d2")
	}
	for _, sh := range shapes {
		n := len(sh.Blocks)
		if n < 2 {
			continue
		}
		var splits []harness.Split
		for _, sp := range harness.Splits(n) {
			// the responder holds the root (otherwise the request just fails) and the requestor lacks something
			if sp[0]&2 == 0 {
				continue
			}
			lacksQ, lacksR := 0, 0
			for _, v := range sp {
				if v&1 == 0 {
					lacksQ++
				}
				if v&2 == 0 {
					lacksR++
				}
			}
			if lacksQ == 0 {
				continue
			}
			if !thorough && ((lacksR > 1 && n > 3) || lacksR > 2 || (n >= 4 && lacksR > 0 && sp[n-1]&2 != 0 && sh.Name != "fan4") || (sh.Name == "fan4" && lacksQ < 3)) {
				continue
			}
			splits = append(splits, sp)
		}
		for _, sn := range sels {
			for _, sp := range splits {
				for _, mode := range []string{"req-hook", "resp-hook", "resp-hook-held", "resp-reqhook", "req-api", "resp-api", "resp-api-held", "req-both", "req-hook-while-resp-paused"} {
					lo, hi := 1, n
					if mode == "resp-reqhook" {
						lo, hi = 1, 1
					}
					if mode == "resp-api-held" {
						lo, hi = 0, n
						if !thorough {
							hi = 1
						}
					}
					if !thorough && strings.HasSuffix(mode, "-api") {
						hi = 2
					}
					if !thorough && (mode == "req-both" || mode == "req-hook-while-resp-paused") {
						hi = min(n, 2)
					}
					if strings.HasSuffix(mode, "-api") {
						lo, hi = 0, 4
					}
					for at := lo; at <= hi; at++ {
						out = append(out, c06Case{Shape: sh, Sel: sn, Split: sp, Mode: mode, At: at})
						if (mode == "req-hook" || mode == "req-api") && n >= 3 {
							out = append(out, c06Case{Shape: sh, Sel: sn, Split: sp, Mode: mode, At: at, Batch: true})
						}
					}
				}
			}
		}
	}
	return out
}

func runC06(c *core.Ctx) {
	bound := 1
	if c.Thorough() {
		bound = 2
	}
	cases := c06Cases(c.Thorough())
	for i, cs := range cases {
		if !c.Mine(int64(i)) {
			continue
		}
		if c.Expired() {
			c.Res.Exhaustive = false
			c.Note("deadline hit after %d of %d cases", i, len(cases))
			return
		}
		cs := cs
		c.Explore(core.ExploreOpts{MaxBound: bound, Cost: core.Deviation, Label: cs, NoShard: true,
			Filter: func(p vsched.Point) bool { return p.Env }}, func(cfg vsched.Config) core.Exec {
			o, s := c06Run(cfg, cs)
			out := fmt.Sprintf("%s paused=%v resumedAfter=%d", cs.Mode, o.paused, len(o.trace))
			if o.paused {
				c.Count("executions_with_an_actual_pause", 1)
			}
			return core.Exec{Sched: s, Outcome: out, Viol: c06Judge(cs, o)}
		})
		if i%97 == 0 {
			c.Sample(cs.String())
		}
	}
}

func init() {
	core.Register(&core.Prop{ID: "C06", Level: "model_checking",
		Rule:        "shapes (N<=3 + a 4-chain; thorough N<=4 catalogue) x splits (responder holds the root, requestor lacks something, responder lacks <=1 block in quick) x selectors x pause by {requestor block hook, responder block hook at block 1..N (also with the responder's first send stalled across the pause and the resume), responder request hook, requestor API, requestor block hook and API for the same block, requestor block hook at block j while the responder has paused itself at block j+1 (both sides paused at once), responder API after 0..4 deliveries, responder API while a send from index k on is stalled under a one-block allowance (the pause lands on whatever link comes next, present or missing)}; network gated: after every event (deliver next message on a link, pause call, unpause call) the two real instances run to quiescence; every order of events within the deviation bound from the natural order (deliver everything, resume last) is executed; a class is (pause kind, pause happened, number of events)",
		Assumptions: []string{"differential oracle: the same configuration run uninterrupted (C02 ties that to the reference traversal)", "event-level interleavings (message granularity); schedules inside one event are the default", "an unpause that is refused because the pause has not taken effect yet is retried"},
		Run:         runC06, QuickBudget: 300, ThoroughBudget: 2400,
		Replay: func(raw json.RawMessage) string {
			var w struct {
				Label  c06Case `json:"label"`
				Prefix []int   `json:"prefix"`
			}
			if err := json.Unmarshal(raw, &w); err != nil {
				return err.Error()
			}
			o, _ := c06Run(core.CfgFromReplay(raw), w.Label)
			if v := c06Judge(w.Label, o); v != nil {
				return v.Signature + ": " + v.What
			}
			return fmt.Sprintf("ok (paused=%v events=%v blocksWhilePaused=%d pauseErr=%q)", o.paused, o.trace, o.blocksWhilePaused, o.pauseErr)
		}})
}
