package props

import (
	"context"
	"encoding/json"
	"fmt"
	"sort"
	"strings"

	"github.com/ipfs/go-graphsync/taskqueue"
	"github.com/ipfs/go-graphsync/zzverif/vsched"
	"github.com/ipfs/go-peertaskqueue"
	"github.com/ipfs/go-peertaskqueue/peertask"
	"github.com/ipfs/go-peertaskqueue/peertracker"
	"github.com/libp2p/go-libp2p/core/peer"

	"verif/core"
)

// C21: work limits are respected and every queued request eventually runs
// (DESIGN 6 C21). Real taskqueue.WorkerTaskQueue (+ go-peertaskqueue) with a
// gated executor: a task's duration is decided by its own "finisher" thread, so
// completion order is a scheduling choice.

type tqScenario struct {
	Name   string   `json:"name"`
	W      int      `json:"workers"`
	M      int      `json:"per_peer_max"`
	Peers  [][]int  `json:"peers"`  // per peer: priorities of its tasks, pushed in order by one thread
	Remove [][2]int `json:"remove"` // (peer, task index) removed by a separate thread
}

func (s tqScenario) String() string {
	return fmt.Sprintf("%s W=%d M=%d peers=%v remove=%v", s.Name, s.W, s.M, s.Peers, s.Remove)
}

type tqTask struct {
	peer, idx int
	started   int
	finished  bool
	release   chan struct{}
	startedCh chan struct{}
	removedOK bool
}

type tqExec struct {
	tq      *taskqueue.WorkerTaskQueue
	tasks   map[string]*tqTask
	running map[int]int // per peer
	total   int
	viol    []string
	sc      tqScenario
}

func tqTopic(p, i int) string { return fmt.Sprintf("p%d-t%d", p, i) }
func tqPeer(p int) peer.ID    { return peer.ID(fmt.Sprintf("peer%d", p)) }

func (e *tqExec) ExecuteTask(ctx context.Context, pid peer.ID, task *peertask.Task) bool {
	t := e.tasks[task.Topic.(string)]
	t.started++
	e.total++
	e.running[t.peer]++
	if e.total > e.sc.W {
		e.viol = append(e.viol, fmt.Sprintf("too-many-tasks-running|%d tasks running with %d workers", e.total, e.sc.W))
	}
	if e.sc.M > 0 && e.running[t.peer] > e.sc.M {
		e.viol = append(e.viol, fmt.Sprintf("per-peer-limit-exceeded|%d tasks of peer %d running, per-peer maximum %d", e.running[t.peer], t.peer, e.sc.M))
	}
	if t.started > 1 {
		e.viol = append(e.viol, fmt.Sprintf("task-executed-twice|%s executed %d times", task.Topic, t.started))
	}
	t.startedCh <- struct{}{}
	<-t.release
	e.running[t.peer]--
	e.total--
	t.finished = true
	e.tq.TaskDone(pid, task)
	return false
}

type tqObs struct {
	viol     []string
	notRun   []string
	deadlock bool
	panicked string
	summary  string
}

func tqRun(cfg vsched.Config, sc tqScenario) (*tqObs, *vsched.Sched) {
	o := &tqObs{}
	cfg.MaxTicks = 6
	s := vsched.Run(cfg, func() {
		ctx, cancel := context.WithCancel(context.Background())
		var opts []peertaskqueue.Option
		if sc.M > 0 {
			opts = append(opts, peertaskqueue.MaxOutstandingWorkPerPeer(sc.M))
		}
		tq := taskqueue.NewTaskQueue(ctx, opts...)
		e := &tqExec{tq: tq, tasks: map[string]*tqTask{}, running: map[int]int{}, sc: sc}
		var order []string
		for p, ts := range sc.Peers {
			for i := range ts {
				t := &tqTask{peer: p, idx: i, release: make(chan struct{}), startedCh: make(chan struct{}, 1)}
				e.tasks[tqTopic(p, i)] = t
				order = append(order, tqTopic(p, i))
			}
		}
		tq.Startup(uint64(sc.W), e)
		for p, ts := range sc.Peers {
			p, ts := p, ts
			vsched.GoN(fmt.Sprintf("push%d", p), func() {
				for i, pr := range ts {
					tq.PushTask(tqPeer(p), peertask.Task{Topic: tqTopic(p, i), Priority: pr, Work: 1})
				}
			})
		}
		for _, name := range order {
			t := e.tasks[name]
			vsched.GoN("fin-"+name, func() {
				<-t.startedCh
				t.release <- struct{}{}
			})
		}
		for _, rm := range sc.Remove {
			rm := rm
			vsched.GoN("remove", func() {
				tq.Remove(tqTopic(rm[0], rm[1]), tqPeer(rm[0]))
			})
		}
		vsched.Quiesce()
		removed := map[string]bool{}
		for _, rm := range sc.Remove {
			removed[tqTopic(rm[0], rm[1])] = true
		}
		ran := 0
		for _, name := range order {
			t := e.tasks[name]
			if t.started > 0 {
				ran++
			}
			if t.started == 0 && !removed[name] {
				o.notRun = append(o.notRun, name)
			}
			if t.started > 0 && !t.finished {
				o.notRun = append(o.notRun, name+"(unfinished)")
			}
		}
		st := tq.Stats()
		if len(o.notRun) == 0 && (st.Active != 0 || st.Pending != 0) {
			e.viol = append(e.viol, fmt.Sprintf("queue-not-empty-at-end|all tasks ran but the queue reports active=%d pending=%d", st.Active, st.Pending))
		}
		o.viol = e.viol
		o.summary = fmt.Sprintf("ran=%d notrun=%d", ran, len(o.notRun))
		cancel()
	})
	o.deadlock = s.Deadlock
	if s.Panic != nil {
		o.panicked = fmt.Sprint(s.Panic)
	}
	return o, s
}

func tqJudge(sc tqScenario, o *tqObs) *core.Violation {
	if o.panicked != "" {
		return &core.Violation{Signature: "panic", What: sc.String() + ": " + o.panicked, Replay: sc}
	}
	if len(o.viol) > 0 {
		p := strings.SplitN(o.viol[0], "|", 2)
		return &core.Violation{Signature: p[0], What: sc.String() + ": " + p[1], Replay: sc}
	}
	if len(o.notRun) > 0 {
		return &core.Violation{Signature: "queued-task-never-executed", What: fmt.Sprintf("%s: at final quiescence (ticker horizon reached) tasks %v were never executed", sc, o.notRun), Replay: sc}
	}
	return nil
}

func tqScenarios(thorough bool) []tqScenario {
	var out []tqScenario
	add := func(name string, w, m int, peers [][]int, rm ...[2]int) {
		out = append(out, tqScenario{Name: name, W: w, M: m, Peers: peers, Remove: rm})
	}
	shapes := [][][]int{
		{{1, 1}},
		{{1}, {1}},
		{{1, 1}, {1}},
		{{1, 2, 3}},
		{{1, 1}, {1, 1}},
		{{1}, {1}, {1}},
	}
	if thorough {
		shapes = append(shapes, [][]int{{1, 1, 1}, {1}, {2}}, [][]int{{1, 1}, {1, 1}, {1}})
	}
	for _, w := range []int{1, 2, 3} {
		for _, m := range []int{0, 1, 2} {
			for si, sh := range shapes {
				add(fmt.Sprintf("w%d-m%d-s%d", w, m, si), w, m, sh)
			}
		}
	}
	// removals (requestor cancel of a queued request) racing with pops
	for _, w := range []int{1, 2} {
		for _, m := range []int{0, 1} {
			add(fmt.Sprintf("w%d-m%d-remove-first", w, m), w, m, [][]int{{1, 1}, {1}}, [2]int{0, 0})
			add(fmt.Sprintf("w%d-m%d-remove-second", w, m), w, m, [][]int{{1, 1}, {1}}, [2]int{0, 1})
			add(fmt.Sprintf("w%d-m%d-remove-two", w, m), w, m, [][]int{{1, 1, 1}}, [2]int{0, 1}, [2]int{0, 2})
		}
	}
	return out
}

// ---- starvation lasso search (DESIGN 4.3) on the real queue, sequential
// transition system: Push(p) / Finish(oldest running task of p), each followed
// by quiescence of the real workers.

type tqEvent struct {
	K string `json:"k"` // push | finish
	P int    `json:"p"`
}

type tqLassoState struct {
	pending, running []int
	victimStarted    bool
	starts           int
}

func (s tqLassoState) key() string { return fmt.Sprint(s.pending, s.running, s.victimStarted) }

// tqLassoRun replays events on a fresh real queue with W workers; the victim's
// single task is tqTopic(victim,0).
func tqLassoRun(w, m, npeers int, evs []tqEvent) (tqLassoState, string) {
	var st tqLassoState
	var errs string
	s := vsched.Run(vsched.Config{Fast: true, MaxTicks: 3, MaxSteps: 2000000}, func() {
		ctx, cancel := context.WithCancel(context.Background())
		defer cancel()
		var opts []peertaskqueue.Option
		if m > 0 {
			opts = append(opts, peertaskqueue.MaxOutstandingWorkPerPeer(m))
		}
		tq := taskqueue.NewTaskQueue(ctx, opts...)
		e := &tqExec{tq: tq, tasks: map[string]*tqTask{}, running: map[int]int{}, sc: tqScenario{W: w, M: m}}
		tq.Startup(uint64(w), e)
		next := make([]int, npeers)
		var runq [][]*tqTask = make([][]*tqTask, npeers)
		collect := func() {
			for _, t := range e.tasks {
				select {
				case <-t.startedCh:
					runq[t.peer] = append(runq[t.peer], t)
					st.starts++
				default:
				}
			}
		}
		for _, ev := range evs {
			switch ev.K {
			case "push":
				name := tqTopic(ev.P, next[ev.P])
				e.tasks[name] = &tqTask{peer: ev.P, idx: next[ev.P], release: make(chan struct{}), startedCh: make(chan struct{}, 1)}
				next[ev.P]++
				tq.PushTask(tqPeer(ev.P), peertask.Task{Topic: name, Priority: 1, Work: 1})
			case "finish":
				if len(runq[ev.P]) == 0 {
					errs = "finish with nothing running"
					return
				}
				t := runq[ev.P][0]
				runq[ev.P] = runq[ev.P][1:]
				t.release <- struct{}{}
			}
			vsched.Quiesce()
			collect()
			sort.Slice(runq[ev.P], func(i, j int) bool { return runq[ev.P][i].idx < runq[ev.P][j].idx })
		}
		st.pending = make([]int, npeers)
		st.running = make([]int, npeers)
		for p := 0; p < npeers; p++ {
			st.running[p] = len(runq[p])
			tq.WithPeerTopics(tqPeer(p), func(t *peertracker.PeerTrackerTopics) {
				if t != nil {
					st.pending[p] = len(t.Pending)
				}
			})
		}
		if t, ok := e.tasks[tqTopic(npeers-1, 0)]; ok && t.started > 0 {
			st.victimStarted = true
		}
		if len(e.viol) > 0 {
			errs = e.viol[0]
		}
		// let running tasks end so that the workers can be killed cleanly
		for p := range runq {
			for _, t := range runq[p] {
				t.release <- struct{}{}
			}
		}
	})
	if s.Panic != nil {
		errs = fmt.Sprint(s.Panic)
	}
	if len(st.pending) != npeers {
		// the body never reached its end: a queue operation blocked for ever
		if errs == "" {
			errs = "queue-operation-blocked-forever"
		}
		st.pending, st.running = make([]int, npeers), make([]int, npeers)
	}
	return st, errs
}

type tqLasso struct {
	W      int       `json:"workers"`
	M      int       `json:"per_peer_max"`
	Peers  int       `json:"peers"`
	Stem   []tqEvent `json:"stem"`
	Cycle  []tqEvent `json:"cycle"`
	Rounds int       `json:"rounds"`
}

// tqFindLasso: BFS over event histories (bounded pending per peer); looks for
// a cycle in abstract state space along which the victim (last peer, one task
// pushed in the stem) stays pending and never starts while other tasks start
// and every task started in the cycle also finishes in it (fair environment).
func tqFindLasso(c *core.Ctx, w, m, npeers, maxPending, maxDepth int) *tqLasso {
	victim := npeers - 1
	type node struct {
		h  []tqEvent
		st tqLassoState
	}
	start := []tqEvent{}
	seen := map[string][]tqEvent{}
	frontier := []node{{h: start}}
	st0, _ := tqLassoRun(w, m, npeers, start)
	frontier[0].st = st0
	seen[st0.key()] = start
	// explicit graph for cycle search
	type edge struct {
		to     string
		ev     tqEvent
		starts int
	}
	graph := map[string][]edge{}
	states := map[string]tqLassoState{st0.key(): st0}
	for len(frontier) > 0 {
		n := frontier[0]
		frontier = frontier[1:]
		if len(n.h) >= maxDepth {
			continue
		}
		var evs []tqEvent
		for p := 0; p < npeers; p++ {
			if p == victim {
				if len(n.h) > 0 && !contains(n.h, tqEvent{"push", victim}) && n.st.pending[p] == 0 {
					evs = append(evs, tqEvent{"push", p})
				}
				if len(n.h) == 0 {
					continue
				}
			} else if n.st.pending != nil && n.st.pending[p] < maxPending || n.st.pending == nil {
				evs = append(evs, tqEvent{"push", p})
			}
			if n.st.running != nil && n.st.running[p] > 0 {
				evs = append(evs, tqEvent{"finish", p})
			}
		}
		for _, ev := range evs {
			h := append(append([]tqEvent{}, n.h...), ev)
			st, errs := tqLassoRun(w, m, npeers, h)
			c.Res.Transitions++
			c.Res.Traces++
			if errs == "queue-operation-blocked-forever" {
				c.Violate("queue-operation-blocked-forever/lasso-search", fmt.Sprintf("W=%d M=%d: after [%s] a push or finish on the real queue never returns", w, m, tqEvString(h)), map[string]any{"lasso": &tqLasso{W: w, M: m, Peers: npeers, Stem: h, Rounds: 0}})
				continue
			}
			if errs != "" {
				continue
			}
			k := st.key()
			graph[n.st.key()] = append(graph[n.st.key()], edge{to: k, ev: ev, starts: st.starts - n.st.starts})
			if _, ok := seen[k]; !ok {
				seen[k] = h
				states[k] = st
				c.Res.States++
				frontier = append(frontier, node{h: h, st: st})
			}
		}
	}
	// cycle search among states where the victim is pending and not started
	ok := func(k string) bool {
		s := states[k]
		return s.pending != nil && s.pending[victim] > 0 && !s.victimStarted
	}
	for k0 := range graph {
		if !ok(k0) {
			continue
		}
		// DFS up to length 6 for a cycle back to k0 with >= 1 start and balanced finishes
		type fr struct {
			k       string
			path    []tqEvent
			starts  int
			running map[int]bool // peers with a running task somewhere on the path
		}
		fair := func(path []tqEvent, running map[int]bool) bool {
			// finish(p) ends p's oldest running task, so a cycle holding finish(p) for every
			// peer that has something running ends every task when repeated for ever
			for p := range running {
				if !contains(path, tqEvent{"finish", p}) {
					return false
				}
			}
			return true
		}
		runningOf := func(k string, into map[int]bool) map[int]bool {
			out := map[int]bool{}
			for p := range into {
				out[p] = true
			}
			for p, n := range states[k].running {
				if n > 0 {
					out[p] = true
				}
			}
			return out
		}
		stack := []fr{{k: k0, running: runningOf(k0, nil)}}
		for len(stack) > 0 {
			f := stack[len(stack)-1]
			stack = stack[:len(stack)-1]
			if len(f.path) >= 8 {
				continue
			}
			for _, e := range graph[f.k] {
				if !ok(e.to) {
					continue
				}
				p := append(append([]tqEvent{}, f.path...), e.ev)
				run := runningOf(e.to, f.running)
				if e.to == k0 && f.starts+e.starts > 0 && fair(p, run) {
					return &tqLasso{W: w, M: m, Peers: npeers, Stem: seen[k0], Cycle: p}
				}
				stack = append(stack, fr{k: e.to, path: p, starts: f.starts + e.starts, running: run})
			}
		}
	}
	return nil
}

func contains(h []tqEvent, e tqEvent) bool {
	for _, x := range h {
		if x == e {
			return true
		}
	}
	return false
}

// tqPump replays stem + rounds x cycle on the real queue; reports whether the
// victim's task was still never started and how many other tasks started.
func tqPump(l *tqLasso, rounds int) (starved bool, starts int, errs string) {
	h := append([]tqEvent{}, l.Stem...)
	for i := 0; i < rounds; i++ {
		h = append(h, l.Cycle...)
	}
	st, errs := tqLassoRun(l.W, l.M, l.Peers, h)
	return st.pending != nil && st.pending[l.Peers-1] > 0 && !st.victimStarted, st.starts, errs
}

func tqEvString(evs []tqEvent) string {
	var p []string
	for _, e := range evs {
		p = append(p, fmt.Sprintf("%s(p%d)", e.K, e.P))
	}
	return strings.Join(p, " ")
}

func runC21(c *core.Ctx) {
	bound := 2
	if c.Thorough() {
		bound = 3
	}
	var idx int64
	for _, sc := range tqScenarios(c.Thorough()) {
		idx++
		if !c.Mine(idx) {
			continue
		}
		if c.Expired() {
			c.Res.Exhaustive = false
			return
		}
		sc := sc
		c.Explore(core.ExploreOpts{MaxBound: bound, Cost: core.Deviation, Label: sc, NoShard: true}, func(cfg vsched.Config) core.Exec {
			o, s := tqRun(cfg, sc)
			return core.Exec{Sched: s, Outcome: fmt.Sprintf("W=%d M=%d %s", sc.W, sc.M, o.summary), Viol: tqJudge(sc, o)}
		})
		if idx%7 == 0 {
			c.Sample(sc.String())
		}
	}
	// outgoing side, whole instance: a real requestor with an outgoing maximum of 1 issues requests A and B
	// (then C) to a scripted responder; every sequence of up to 3 distinct events from {cancel A/B/C by
	// context or API, responder answers A/B/C, issue C}; at every quiescent point at most one request runs,
	// and every request that was answered and not cancelled completes
	for _, mc := range c23MultiCases() {
		idx++
		if !c.Mine(idx) {
			continue
		}
		_, stats, _, notDone, panicked := c23MultiRun(mc)
		c.Res.Evaluations++
		c.Res.Traces++
		c.Res.Transitions += int64(len(mc.Evs) + 2)
		c.Class(fmt.Sprintf("requestor-instance max-running=%d", c23MaxRunning))
		c.Count("requestor_instance_histories", 1)
		what := fmt.Sprintf("one outgoing worker, requests A and B issued, then %v: ", mc.Evs)
		switch {
		case panicked != "":
			c.Violate("panic/requestor-instance", what+panicked, mc)
		case c23MaxRunning > 1:
			c.Violate("outgoing-maximum-exceeded/requestor-instance", fmt.Sprintf("%s%d requests running at a quiescent point, the outgoing maximum is 1", what, c23MaxRunning), mc)
		case len(notDone) > 0:
			c.Violate("queued-outgoing-request-never-executed/requestor-instance", fmt.Sprintf("%srequests that were answered and not cancelled did not complete: %v (stats %s)", what, notDone, stats), mc)
		}
	}
	// incoming side with pauses: two workers, per-peer maximum 1, a request paused by the request hook, a
	// stalled send under a one-block allowance (so that a running response stays active across quiescent
	// points), every sequence of up to 3 distinct events from {resume (with/without extensions), cancels,
	// release the send, a further request of the same peer}
	for _, rc := range c23RspMultiCases() {
		if rc.M == 0 {
			continue
		}
		idx++
		if !c.Mine(idx) {
			continue
		}
		v := c23RspMultiJudge(rc)
		c.Res.Evaluations++
		c.Res.Traces++
		c.Res.Transitions += int64(len(rc.Evs) + 2)
		c.Class(fmt.Sprintf("responder-instance-with-pauses max-active=%d", c23RspMaxActive))
		c.Count("responder_pause_histories", 1)
		if v != nil && (strings.HasPrefix(v.Signature, "per-peer-limit-exceeded") || strings.HasPrefix(v.Signature, "too-many-requests-active") || strings.HasPrefix(v.Signature, "request-never-completes") || strings.HasPrefix(v.Signature, "panic")) {
			c.Violate(v.Signature+"-instance-with-pauses", v.What, rc)
		}
	}
	// whole-instance part: a real responder with configured limits serving three
	// requests of one peer (responder world, rsp.go)
	for _, w := range []int{1, 2} {
		for _, pp := range []int{0, 1, 2} {
			for _, acts := range [][]rspAct{nil, {{K: "p-cancel2", Pos: 1}}, {{K: "p-cancel2", Pos: 0}, {K: "p-new2", Pos: 1}}, {{K: "p-cancel", Pos: 1}, {K: "p-new2", Pos: 2}}} {
				for _, sched := range []bool{false, true} {
					idx++
					if !c.Mine(idx) {
						continue
					}
					if c.Expired() {
						c.Res.Exhaustive = false
						return
					}
					cs := rspCase{Hook: "accept", Reqs: 3, Workers: w, PerPeer: pp, Acts: acts, Sched: sched, Blocks: 2}
					if sched {
						for i := range cs.Acts {
							cs.Acts[i].Pos = 0
						}
						c.Explore(core.ExploreOpts{MaxBound: 1, Cost: core.Deviation, Label: cs, NoShard: true, MaxExecs: 60000}, func(cfg vsched.Config) core.Exec {
							o, s := rspRun(cfg, cs)
							return core.Exec{Sched: s, Outcome: fmt.Sprintf("instance W=%d M=%d completed=%d", w, pp, len(o.completed)), Viol: c21JudgeInstance(cs, o)}
						})
						continue
					}
					o, _ := rspRun(vsched.Config{Fast: true}, cs)
					c.Res.Evaluations++
					c.Res.Traces++
					c.Class(fmt.Sprintf("instance W=%d M=%d maxActive=%d", w, pp, o.maxRunning))
					if v := c21JudgeInstance(cs, o); v != nil {
						c.Violate(v.Signature, v.What, v.Replay)
					}
				}
			}
		}
	}
	// a cancel racing with the start of the cancelled request must not cost the peer its slot
	for _, w := range []int{1, 2} {
		// (explored by all shards together: level-1 subtrees are distributed)
		cs := rspCase{Hook: "accept", Reqs: 1, Workers: w, PerPeer: 1, Acts: []rspAct{{K: "p-cancel"}, {K: "p-new2"}}, Sched: true, Blocks: 1}
		c.Explore(core.ExploreOpts{MaxBound: 2, Cost: core.Deviation, Label: cs, MaxExecs: 80000}, func(cfg vsched.Config) core.Exec {
			o, s := rspRun(cfg, cs)
			return core.Exec{Sched: s, Outcome: fmt.Sprintf("instance cancel-vs-start W=%d completed=%d", w, len(o.completed)), Viol: c21JudgeInstance(cs, o)}
		})
	}
	// starvation lassos: one configuration per shard
	type lcfg struct{ w, m, peers int }
	var lc []lcfg
	for _, w := range []int{1, 2, 3} {
		for _, m := range []int{0, 1} {
			lc = append(lc, lcfg{w, m, 2})
			if w > 1 {
				lc = append(lc, lcfg{w, m, 3})
			}
		}
	}
	for _, cf := range lc {
		idx++
		if !c.Mine(idx) {
			continue
		}
		depth := 7
		if c.Thorough() {
			depth = 9
		}
		l := tqFindLasso(c, cf.w, cf.m, cf.peers, 3, depth)
		c.Count("lasso_searches", 1)
		if l == nil {
			c.Class(fmt.Sprintf("lasso-search W=%d M=%d peers=%d: none", cf.w, cf.m, cf.peers))
			continue
		}
		l.Rounds = 100
		starved, starts, errs := tqPump(l, l.Rounds)
		c.Class(fmt.Sprintf("lasso-search W=%d M=%d peers=%d: cycle found, pump starved=%v", cf.w, cf.m, cf.peers, starved))
		if errs != "" {
			c.EngineError("lasso pump: %s", errs)
			continue
		}
		if starved {
			other := "one-worker"
			if cf.w > 1 {
				other = "several-workers"
			}
			c.Violate("starvation/"+other, fmt.Sprintf("W=%d M=%d: after [%s], repeating [%s] %d times starts %d tasks of the submitting peer(s) while the other peer's queued task is never executed", cf.w, cf.m, tqEvString(l.Stem), tqEvString(l.Cycle), l.Rounds, starts), map[string]any{"lasso": l})
		}
	}
}

// c21JudgeInstance: limits as observed through Stats/PeerState at quiescent
// points, and every received request that was not cancelled ran to completion.
func c21JudgeInstance(cs rspCase, o *rspObs) *core.Violation {
	v := func(sig, what string) *core.Violation {
		return &core.Violation{Signature: sig + "/instance", What: fmt.Sprintf("%s (events: %s): %s", cs, strings.Join(o.trace, ","), what), Replay: map[string]any{"instance": cs}}
	}
	if o.panicked != "" {
		return v("panic", o.panicked)
	}
	if o.maxRunning > cs.Workers {
		return v("too-many-tasks-running", fmt.Sprintf("%d incoming requests active with a maximum of %d", o.maxRunning, cs.Workers))
	}
	if cs.PerPeer > 0 && o.maxPerPeer > cs.PerPeer {
		return v("per-peer-limit-exceeded", fmt.Sprintf("%d requests of one peer active with a per-peer maximum of %d", o.maxPerPeer, cs.PerPeer))
	}
	cancelled := map[int]bool{}
	for _, a := range cs.Acts {
		if a.K == "p-cancel" {
			cancelled[0] = true
		}
		if a.K == "p-cancel2" {
			cancelled[1] = true
		}
	}
	for i, id := range o.ids {
		if !o.received[id] || cancelled[i] {
			continue
		}
		if len(o.completed[id]) == 0 && o.neterr[id] == 0 {
			return v("queued-request-never-executed", fmt.Sprintf("request %d was received and not cancelled but never completed (state left %q, queue %v, stats %s)", i+1, o.stateLeft[id], o.queueLeft, o.stats))
		}
	}
	return nil
}

func init() {
	core.Register(&core.Prop{ID: "C21", Level: "model_checking",
		Rule:        "(0'') incoming side with pauses: 2 workers, per-peer maximum 1, a request paused by the request hook and resumed, a stalled send under a one-block allowance, a further request of the same peer, every sequence of up to 3 distinct events: the peer never has more than one request active at a quiescent point and every un-cancelled request completes; (0') outgoing side: a real requestor with an outgoing maximum of 1, requests A, B (and C) to a scripted responder, every sequence of up to 3 distinct events from {cancel by context/API, responder answers, issue C}: at most one request running at every quiescent point and every answered, un-cancelled request completes; (0) whole instance: a real responder with MaxInProgressIncomingRequests W in {1,2} and per-peer maximum M in {0,1,2} serves three requests of one peer with cancels and late arrivals, event level and all schedules within deviation bound 1: active counts within the limits at every quiescent point, every received un-cancelled request completes; (a) scenarios W in {1,2,3} workers x per-peer maximum M in {0,1,2} x 6 (thorough 8) task layouts over <=3 peers (one pusher thread per peer, one finisher thread per task so completion order is a scheduling choice) + removals racing with pops; all schedules within the deviation bound on the real WorkerTaskQueue; (b) explicit-state search for starvation lassos: BFS over push/finish event histories on the real queue and workers (quiescing after each event), abstract state = per-peer (pending, running), a cycle along which another peer's single queued task is never started while tasks start and finish, then pumped 100 rounds on the real queue; a class is a distinct (W, M, ran/not-run) outcome",
		Assumptions: []string{"a task's duration is the scheduling of its finisher thread", "eventually = at final quiescence after the ticker horizon (6 idle thaw ticks)", "lasso abstraction: per-peer counts; every reported lasso is confirmed by replaying 100 rounds on the real queue"},
		Run:         runC21, QuickBudget: 300, ThoroughBudget: 2400,
		Replay: func(raw json.RawMessage) string {
			var w struct {
				Label    tqScenario `json:"label"`
				Prefix   []int      `json:"prefix"`
				Lasso    *tqLasso   `json:"lasso"`
				Instance *rspCase   `json:"instance"`
			}
			if err := json.Unmarshal(raw, &w); err != nil {
				return err.Error()
			}
			var rmc c23RspMulti
			if json.Unmarshal(raw, &rmc) == nil && rmc.RspMulti {
				if v := c23RspMultiJudge(rmc); v != nil {
					return v.Signature + "-instance-with-pauses: " + v.What
				}
				return "ok"
			}
			var mc c23Multi
			if json.Unmarshal(raw, &mc) == nil && mc.Multi {
				_, stats, _, notDone, panicked := c23MultiRun(mc)
				switch {
				case panicked != "":
					return "panic/requestor-instance: " + panicked
				case c23MaxRunning > 1:
					return fmt.Sprintf("outgoing-maximum-exceeded/requestor-instance: %d running", c23MaxRunning)
				case len(notDone) > 0:
					return fmt.Sprintf("queued-outgoing-request-never-executed/requestor-instance: %v (stats %s)", notDone, stats)
				}
				return "ok"
			}
			if w.Instance != nil || strings.Contains(string(raw), `"hook"`) {
				var cs rspCase
				if w.Instance != nil {
					cs = *w.Instance
				} else {
					var l struct {
						Label rspCase `json:"label"`
					}
					json.Unmarshal(raw, &l)
					cs = l.Label
				}
				cfg := vsched.Config{Fast: true}
				if cs.Sched {
					cfg = vsched.Config{Prefix: w.Prefix}
				}
				o, _ := rspRun(cfg, cs)
				if v := c21JudgeInstance(cs, o); v != nil {
					return v.Signature + ": " + v.What
				}
				return "ok"
			}
			if w.Lasso != nil {
				var lines []string
				for _, r := range []int{1, 10, 100} {
					st, n, errs := tqPump(w.Lasso, r)
					lines = append(lines, fmt.Sprintf("rounds=%d victim-starved=%v other-tasks-started=%d %s", r, st, n, errs))
				}
				st, _, _ := tqPump(w.Lasso, 100)
				if st {
					other := "one-worker"
					if w.Lasso.W > 1 {
						other = "several-workers"
					}
					return "starvation/" + other + ": " + strings.Join(lines, "; ")
				}
				return "ok"
			}
			o, _ := tqRun(vsched.Config{Prefix: w.Prefix}, w.Label)
			if v := tqJudge(w.Label, o); v != nil {
				return v.Signature + ": " + v.What
			}
			return "ok"
		}})
}
