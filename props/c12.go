package props

import (
	"bytes"
	"context"
	"encoding/binary"
	"encoding/json"
	"fmt"
	"strings"

	"github.com/ipfs/go-cid"
	"github.com/ipfs/go-graphsync"
	"github.com/ipfs/go-graphsync/dedupkey"
	"github.com/ipfs/go-graphsync/donotsendfirstblocks"
	gsimpl "github.com/ipfs/go-graphsync/impl"
	gsmsg "github.com/ipfs/go-graphsync/message"
	gsnet "github.com/ipfs/go-graphsync/network"
	"github.com/ipfs/go-graphsync/zzverif/vsched"
	"github.com/ipld/go-ipld-prime/codec/dagcbor"
	"github.com/ipld/go-ipld-prime/datamodel"
	"github.com/ipld/go-ipld-prime/fluent/qp"
	cidlink "github.com/ipld/go-ipld-prime/linking/cid"
	"github.com/ipld/go-ipld-prime/node/basicnode"
	"github.com/libp2p/go-libp2p/core/peer"

	blocks "github.com/ipfs/go-block-format"

	"verif/core"
	"verif/harness"
)

// C12: hostile bytes never crash a node or yield unverified blocks (DESIGN 6 C12).
// The real network.NewFromLibp2pHost runs over a stub host; a live impl.New
// instance with one outgoing request in flight sits behind it, so every
// message that decodes is processed by the request and response managers.

type c12Seed struct {
	Name  string
	Bytes []byte
}

func c12Enc(ms ...gsmsg.GraphSyncMessage) []byte {
	var buf bytes.Buffer
	for _, m := range ms {
		if err := harness.MH.ToNet(peer.ID("x"), m, &buf); err != nil {
			panic(err)
		}
	}
	return buf.Bytes()
}

type c12World struct {
	local, remote *harness.DAG
}

func c12Dags() c12World {
	sh := harness.Shape{Blocks: []harness.BlockSpec{{Edges: []harness.Edge{{To: 1}}}, {}}}
	return c12World{local: harness.Build(sh, "c12-local"), remote: harness.Build(sh, "c12-remote")}
}

func c12Seeds(full bool) []c12Seed {
	w := c12Dags()
	sel := harness.RecAll(10)
	lroot := w.local.Root.(cidlink.Link).Cid
	rroot := w.remote.Root.(cidlink.Link).Cid
	rleaf := w.remote.Links[1].(cidlink.Link).Cid
	blk := func(d *harness.DAG, i int) blocks.Block {
		b, err := blocks.NewBlockWithCid(d.Data[i], d.Links[i].(cidlink.Link).Cid)
		if err != nil {
			panic(err)
		}
		return b
	}
	msg := func(rq []gsmsg.GraphSyncRequest, rs []gsmsg.GraphSyncResponse, bl []blocks.Block) gsmsg.GraphSyncMessage {
		a := map[graphsync.RequestID]gsmsg.GraphSyncRequest{}
		for _, r := range rq {
			a[r.ID()] = r
		}
		b := map[graphsync.RequestID]gsmsg.GraphSyncResponse{}
		for _, r := range rs {
			b[r.RequestID()] = r
		}
		c := map[cid.Cid]blocks.Block{}
		for _, x := range bl {
			c[x.Cid()] = x
		}
		return gsmsg.NewMessage(a, b, c)
	}
	dk, _ := dedupkey.EncodeDedupKey("k")
	id1, id2 := harness.MkID(1), harness.MkID(2)
	idBlk, _ := blocks.NewBlockWithCid([]byte("id"), func() cid.Cid {
		c, _ := cid.Prefix{Version: 1, Codec: cid.Raw, MhType: 0, MhLength: -1}.Sum([]byte("id"))
		return c
	}())
	md := func(c cid.Cid, a graphsync.LinkAction) gsmsg.GraphSyncLinkMetadatum {
		return gsmsg.GraphSyncLinkMetadatum{Link: c, Action: a}
	}
	seeds := []c12Seed{
		{"new-request", c12Enc(msg([]gsmsg.GraphSyncRequest{gsmsg.NewRequest(id2, lroot, sel, 1)}, nil, nil))},
		{"response-partial+block", c12Enc(msg(nil, []gsmsg.GraphSyncResponse{gsmsg.NewResponse(id1, graphsync.PartialResponse, []gsmsg.GraphSyncLinkMetadatum{md(rroot, graphsync.LinkActionPresent)})}, []blocks.Block{blk(w.remote, 0)}))},
		{"new-request-no-selector", c12Enc(msg([]gsmsg.GraphSyncRequest{gsmsg.NewRequest(id2, lroot, nil, 0)}, nil, nil))},
		{"response-full-2blocks", c12Enc(msg(nil, []gsmsg.GraphSyncResponse{gsmsg.NewResponse(id1, graphsync.RequestCompletedFull, []gsmsg.GraphSyncLinkMetadatum{md(rroot, graphsync.LinkActionPresent), md(rleaf, graphsync.LinkActionPresent)})}, []blocks.Block{blk(w.remote, 0), blk(w.remote, 1)}))},
		{"cancel+update", c12Enc(msg([]gsmsg.GraphSyncRequest{gsmsg.NewCancelRequest(id2), gsmsg.NewUpdateRequest(harness.MkID(3), graphsync.ExtensionData{Name: "x/u", Data: basicnode.NewInt(1)})}, nil, nil))},
		{"response-rejected+ext", c12Enc(msg(nil, []gsmsg.GraphSyncResponse{gsmsg.NewResponse(id1, graphsync.RequestRejected, nil, graphsync.ExtensionData{Name: "x/e", Data: basicnode.NewString("s")})}, nil))},
		{"new-request+exts", c12Enc(msg([]gsmsg.GraphSyncRequest{gsmsg.NewRequest(id2, lroot, sel, -1,
			graphsync.ExtensionData{Name: graphsync.ExtensionsDoNotSendFirstBlocks, Data: donotsendfirstblocks.EncodeDoNotSendFirstBlocks(1)},
			graphsync.ExtensionData{Name: graphsync.ExtensionDeDupByKey, Data: dk})}, nil, nil))},
		{"request+response+block", c12Enc(msg([]gsmsg.GraphSyncRequest{gsmsg.NewRequest(id2, lroot, sel, 1)}, []gsmsg.GraphSyncResponse{gsmsg.NewResponse(id1, graphsync.PartialResponse, []gsmsg.GraphSyncLinkMetadatum{md(rroot, graphsync.LinkActionMissing)})}, []blocks.Block{idBlk}))},
	}
	if full {
		seeds = append(seeds,
			c12Seed{"empty-message", c12Enc(msg(nil, nil, nil))},
			c12Seed{"two-messages", append(c12Enc(msg(nil, []gsmsg.GraphSyncResponse{gsmsg.NewResponse(id1, graphsync.PartialResponse, []gsmsg.GraphSyncLinkMetadatum{md(rroot, graphsync.LinkActionPresent)})}, []blocks.Block{blk(w.remote, 0)})), c12Enc(msg([]gsmsg.GraphSyncRequest{gsmsg.NewCancelRequest(id2)}, nil, nil))...)},
			c12Seed{"response-dups", c12Enc(msg(nil, []gsmsg.GraphSyncResponse{gsmsg.NewResponse(id1, graphsync.PartialResponse, []gsmsg.GraphSyncLinkMetadatum{md(rroot, graphsync.LinkActionDuplicateNotSent), md(rleaf, graphsync.LinkActionDuplicateDAGSkipped)})}, nil))},
			c12Seed{"blocks-only-v0", c12Enc(msg(nil, nil, []blocks.Block{blocks.NewBlock([]byte("v0 block"))}))},
		)
	}
	return seeds
}

// ---- mutants

type c12Mutant struct {
	Seed       string `json:"seed"`
	Family     string `json:"family"`
	Desc       string `json:"desc"`
	Bytes      []byte `json:"bytes"`
	MustReject bool   `json:"must_reject,omitempty"` // malformed by construction: one receive error, nothing delivered
}

var c12Dict = []byte{0x00, 0x01, 0x17, 0x18, 0x1b, 0x3b, 0x40, 0x50, 0x51, 0x5b, 0x7f, 0x80, 0x9f, 0xa0, 0xbf, 0xd8, 0xf6, 0xfb, 0xff}

func withLenPrefix(body []byte) []byte {
	var l [binary.MaxVarintLen64]byte
	n := binary.PutUvarint(l[:], uint64(len(body)))
	return append(append([]byte{}, l[:n]...), body...)
}

// c12Mutants enumerates every mutant of seed (deterministic order).
func c12Mutants(sd c12Seed, full bool, phase int, visit func(m c12Mutant) bool) {
	b := sd.Bytes
	mk := func(fam, desc string, data []byte) bool {
		// phase 1: structural families; phase 2: byte substitutions
		if (fam == "subst1" || fam == "subst2") != (phase == 2) {
			return true
		}
		return visit(c12Mutant{Seed: sd.Name, Family: fam, Desc: desc, Bytes: data})
	}
	// truncations
	for n := 0; n < len(b); n++ {
		if !mk("truncate", fmt.Sprint(n), append([]byte{}, b[:n]...)) {
			return
		}
	}
	// every single-byte substitution
	for i := range b {
		for v := 0; v < 256; v++ {
			if byte(v) == b[i] {
				continue
			}
			m := append([]byte{}, b...)
			m[i] = byte(v)
			if !mk("subst1", fmt.Sprintf("%d=%02x", i, v), m) {
				return
			}
		}
	}
	// pairs of substitutions within the head, dictionary values
	head := 16
	dict := c12Dict[:8]
	if full {
		head, dict = 24, c12Dict
	}
	if head > len(b) {
		head = len(b)
	}
	for i := 0; i < head; i++ {
		for j := i + 1; j < head; j++ {
			for _, vi := range dict {
				for _, vj := range dict {
					if vi == b[i] || vj == b[j] {
						continue
					}
					m := append([]byte{}, b...)
					m[i], m[j] = vi, vj
					if !mk("subst2", fmt.Sprintf("%d=%02x,%d=%02x", i, vi, j, vj), m) {
						return
					}
				}
			}
		}
	}
	// length-prefix tampering
	ln, k := binary.Uvarint(b)
	body := b[k:]
	if int(ln) == len(body) { // single-message seeds
		for _, alt := range []struct {
			d string
			p []byte
		}{
			{"zero", []byte{0}},
			{"len-1", binary.AppendUvarint(nil, ln-1)},
			{"len+1", binary.AppendUvarint(nil, ln+1)},
			{"nonminimal", append(func() []byte { x := binary.AppendUvarint(nil, ln); x[len(x)-1] |= 0x80; return x }(), 0x00)},
			{"ten-byte", []byte{0xff, 0xff, 0xff, 0xff, 0xff, 0xff, 0xff, 0xff, 0xff, 0x01}},
			{"eleven-byte", []byte{0xff, 0xff, 0xff, 0xff, 0xff, 0xff, 0xff, 0xff, 0xff, 0xff, 0x01}},
			{"over-max", binary.AppendUvarint(nil, 4<<20+1)},
			{"at-max", binary.AppendUvarint(nil, 4<<20)},
			{"huge", binary.AppendUvarint(nil, 1<<40)},
		} {
			if !mk("lenprefix", alt.d, append(append([]byte{}, alt.p...), body...)) {
				return
			}
		}
		// a frame whose body is a valid message followed by extra bytes (the prefix covers both)
		for _, g := range [][]byte{{0x00}, {0xff}, {0xa0}, {0xf6, 0xf6}, bytes.Repeat([]byte{0xff}, 64), body} {
			padded := append(append([]byte{}, body...), g...)
			if phase == 1 && !visit(c12Mutant{Seed: sd.Name, Family: "padded", Desc: fmt.Sprintf("body+%d bytes (%x..)", len(g), g[:min(len(g), 3)]), Bytes: withLenPrefix(padded), MustReject: true}) {
				return
			}
		}
		// concatenations
		for _, g := range [][]byte{{0xff}, {0x00}, {0x05, 0xa1, 0x63}, {0x01, 0xff}, b[:len(b)/2]} {
			if !mk("concat", fmt.Sprintf("valid+%x", g[:min(len(g), 4)]), append(append([]byte{}, b...), g...)) {
				return
			}
		}
		if !mk("concat", "valid+valid", append(append([]byte{}, b...), b...)) {
			return
		}
		// node-level mutations of the dag-cbor tree
		nb := basicnode.Prototype.Any.NewBuilder()
		if err := dagcbor.Decode(nb, bytes.NewReader(body)); err == nil {
			c12NodeMutants(nb.Build(), func(desc string, n datamodel.Node) bool {
				var out bytes.Buffer
				if err := dagcbor.Encode(n, &out); err != nil {
					return true
				}
				return mk("node", desc, withLenPrefix(out.Bytes()))
			})
		}
	}
}

func c12Catalog() []struct {
	d string
	f func(datamodel.NodeAssembler)
} {
	someCid, _ := cid.Prefix{Version: 1, Codec: cid.Raw, MhType: 0x12, MhLength: -1}.Sum([]byte("zz"))
	return []struct {
		d string
		f func(datamodel.NodeAssembler)
	}{
		{"null", qp.Null()}, {"true", qp.Bool(true)}, {"int0", qp.Int(0)}, {"int-1", qp.Int(-1)}, {"int99", qp.Int(99)}, {"int20", qp.Int(20)}, {"intmax", qp.Int(1<<63 - 1)},
		{"float", qp.Float(1.5)}, {"str-empty", qp.String("")}, {"str-n", qp.String("n")}, {"str-zz", qp.String("zz")}, {"str-p", qp.String("p")},
		{"bytes0", qp.Bytes([]byte{})}, {"bytes15", qp.Bytes(make([]byte, 15))}, {"bytes16", qp.Bytes(make([]byte, 16))}, {"bytes17", qp.Bytes(make([]byte, 17))}, {"bytes32", qp.Bytes(make([]byte, 32))},
		{"bytes36", qp.Bytes([]byte("0123456789abcdef0123456789abcdef0123"))},
		{"list-empty", qp.List(0, func(datamodel.ListAssembler) {})}, {"map-empty", qp.Map(0, func(datamodel.MapAssembler) {})},
		{"list-int", qp.List(1, func(la datamodel.ListAssembler) { qp.ListEntry(la, qp.Int(1)) })},
		{"link", qp.Link(cidlink.Link{Cid: someCid})},
	}
}

// c12NodeMutants: for every position of the tree, every catalogue replacement;
// for bytes nodes one byte shorter/longer; for maps drop each key and add an
// unknown key; for lists drop each element and duplicate the first.
func c12NodeMutants(root datamodel.Node, emit func(desc string, n datamodel.Node) bool) {
	type path []any
	var paths []path
	var walk func(n datamodel.Node, p path)
	walk = func(n datamodel.Node, p path) {
		paths = append(paths, append(path{}, p...))
		switch n.Kind() {
		case datamodel.Kind_Map:
			it := n.MapIterator()
			for !it.Done() {
				k, v, _ := it.Next()
				ks, _ := k.AsString()
				walk(v, append(p, ks))
			}
		case datamodel.Kind_List:
			for i := int64(0); i < n.Length(); i++ {
				v, _ := n.LookupByIndex(i)
				walk(v, append(p, int(i)))
			}
		}
	}
	walk(root, nil)
	// rebuild with a transformation at path p
	type xform struct {
		replace func(datamodel.NodeAssembler) // replace node at path
		dropKey string
		addKey  bool
		dropIdx int
		dupIdx  bool
	}
	var rebuild func(n datamodel.Node, at path, x xform) func(datamodel.NodeAssembler)
	copyNode := func(n datamodel.Node) func(datamodel.NodeAssembler) {
		return func(na datamodel.NodeAssembler) { datamodel.Copy(n, na) }
	}
	rebuild = func(n datamodel.Node, at path, x xform) func(datamodel.NodeAssembler) {
		if len(at) == 0 {
			if x.replace != nil {
				return x.replace
			}
			switch n.Kind() {
			case datamodel.Kind_Map:
				return qp.Map(-1, func(ma datamodel.MapAssembler) {
					it := n.MapIterator()
					for !it.Done() {
						k, v, _ := it.Next()
						ks, _ := k.AsString()
						if ks == x.dropKey && !x.addKey {
							continue
						}
						qp.MapEntry(ma, ks, copyNode(v))
					}
					if x.addKey {
						qp.MapEntry(ma, "zz", qp.Int(1))
					}
				})
			case datamodel.Kind_List:
				return qp.List(-1, func(la datamodel.ListAssembler) {
					for i := int64(0); i < n.Length(); i++ {
						v, _ := n.LookupByIndex(i)
						if int(i) == x.dropIdx && !x.dupIdx {
							continue
						}
						qp.ListEntry(la, copyNode(v))
						if x.dupIdx && i == 0 {
							qp.ListEntry(la, copyNode(v))
						}
					}
				})
			}
			return copyNode(n)
		}
		switch n.Kind() {
		case datamodel.Kind_Map:
			return qp.Map(-1, func(ma datamodel.MapAssembler) {
				it := n.MapIterator()
				for !it.Done() {
					k, v, _ := it.Next()
					ks, _ := k.AsString()
					if ks == at[0] {
						qp.MapEntry(ma, ks, rebuild(v, at[1:], x))
					} else {
						qp.MapEntry(ma, ks, copyNode(v))
					}
				}
			})
		case datamodel.Kind_List:
			return qp.List(-1, func(la datamodel.ListAssembler) {
				for i := int64(0); i < n.Length(); i++ {
					v, _ := n.LookupByIndex(i)
					if int(i) == at[0] {
						qp.ListEntry(la, rebuild(v, at[1:], x))
					} else {
						qp.ListEntry(la, copyNode(v))
					}
				}
			})
		}
		return copyNode(n)
	}
	build := func(p path, x xform) datamodel.Node {
		nb := basicnode.Prototype.Any.NewBuilder()
		defer func() { recover() }()
		rebuild(root, p, x)(nb)
		return nb.Build()
	}
	get := func(p path) datamodel.Node {
		n := root
		for _, s := range p {
			switch k := s.(type) {
			case string:
				n, _ = n.LookupByString(k)
			case int:
				n, _ = n.LookupByIndex(int64(k))
			}
		}
		return n
	}
	for _, p := range paths {
		ps := fmt.Sprint([]any(p))
		n := get(p)
		for _, c := range c12Catalog() {
			if m := build(p, xform{replace: c.f}); m != nil {
				if !emit(ps+"<-"+c.d, m) {
					return
				}
			}
		}
		switch n.Kind() {
		case datamodel.Kind_Bytes:
			bs, _ := n.AsBytes()
			if len(bs) > 0 {
				if m := build(p, xform{replace: qp.Bytes(bs[:len(bs)-1])}); m != nil && !emit(ps+" bytes-1", m) {
					return
				}
			}
			if m := build(p, xform{replace: qp.Bytes(append(append([]byte{}, bs...), 0x61))}); m != nil && !emit(ps+" bytes+1", m) {
				return
			}
			if m := build(p, xform{replace: qp.Bytes(append(append([]byte{}, bs...), bs...))}); m != nil && !emit(ps+" bytes*2", m) {
				return
			}
		case datamodel.Kind_Map:
			it := n.MapIterator()
			for !it.Done() {
				k, _, _ := it.Next()
				ks, _ := k.AsString()
				if m := build(p, xform{dropKey: ks}); m != nil && !emit(ps+" drop "+ks, m) {
					return
				}
			}
			if m := build(p, xform{addKey: true, dropKey: "\x00none"}); m != nil && !emit(ps+" add zz", m) {
				return
			}
		case datamodel.Kind_List:
			for i := 0; i < int(n.Length()); i++ {
				if m := build(p, xform{dropIdx: i}); m != nil && !emit(fmt.Sprintf("%s drop[%d]", ps, i), m) {
					return
				}
			}
			if n.Length() > 0 {
				if m := build(p, xform{dupIdx: true, dropIdx: -1}); m != nil && !emit(ps+" dup[0]", m) {
					return
				}
			}
		}
	}
}

// ---- the live node

type c12Node struct {
	host   *harness.StubHost
	rn     *harness.RecordingNet
	gs     graphsync.GraphExchange
	f      *harness.Fixture
	w      c12World
	req    *harness.ReqResult
	panics []string
	probeN int
}

func c12Start() *c12Node {
	n := &c12Node{w: c12Dags()}
	n.f = harness.NewFixture(false)
	n.host = &harness.StubHost{Self: peer.ID("N")}
	n.rn = &harness.RecordingNet{GraphSyncNetwork: gsnet.NewFromLibp2pHost(n.host)}
	store := harness.NewStore()
	for i, l := range n.w.local.Links {
		store.Put(l, n.w.local.Data[i])
	}
	n.gs = gsimpl.New(n.f.Ctx, n.rn, store.LinkSystem(), gsimpl.PanicCallback(func(r interface{}, stack string) {
		n.panics = append(n.panics, fmt.Sprint(r))
	}))
	n.issue()
	return n
}

// issue (re-)starts the in-flight outgoing request with ID 1 to peer P.
func (n *c12Node) issue() {
	nd := &harness.Node{ID: peer.ID("N"), GS: n.gs}
	n.req = nd.Request(n.f, peer.ID("P"), n.w.remote.Root, harness.RecAll(10), harness.MkID(1))
	vsched.Quiesce()
}

type c12Obs struct {
	Delivered int
	Errors    int
	Reset     bool
	Unread    int
	BadBlock  string
	BadID     string
}

func (n *c12Node) feed(from peer.ID, data []byte) c12Obs {
	d0, e0 := len(n.rn.Delivered), len(n.rn.Errors)
	s := harness.NewInStream(from, data)
	n.host.Handler(s)
	vsched.Quiesce()
	o := c12Obs{Delivered: len(n.rn.Delivered) - d0, Errors: len(n.rn.Errors) - e0, Reset: s.WasReset, Unread: s.Unread()}
	for _, m := range n.rn.Delivered[d0:] {
		for _, b := range m.Blocks() {
			c, err := b.Cid().Prefix().Sum(b.RawData())
			if err != nil || !c.Equals(b.Cid()) {
				o.BadBlock = fmt.Sprintf("block keyed %s but its bytes hash to %s (%v)", b.Cid(), c, err)
			}
		}
		for _, r := range m.Requests() {
			if len(r.ID().Bytes()) != 16 {
				o.BadID = fmt.Sprintf("request id of %d bytes delivered", len(r.ID().Bytes()))
			}
		}
		for _, r := range m.Responses() {
			if len(r.RequestID().Bytes()) != 16 {
				o.BadID = fmt.Sprintf("response request id of %d bytes delivered", len(r.RequestID().Bytes()))
			}
		}
	}
	if len(n.rn.Delivered) > 64 {
		n.rn.Delivered, n.rn.DeliveredFrom = nil, nil
	}
	return o
}

// probe: a healthy peer V sends a fresh valid request on a new stream; the
// node must answer it with a terminal success status.
func (n *c12Node) probe() string {
	n.probeN++
	idb := []byte(fmt.Sprintf("probe-%010d", n.probeN))
	id, _ := graphsync.ParseRequestID(idb)
	data := c12Enc(harness.ReqMsg(gsmsg.NewRequest(id, n.w.local.Root.(cidlink.Link).Cid, harness.RecAll(10), 1)))
	o := n.feed(peer.ID("V"), data)
	if o.Delivered != 1 || o.Errors != 0 {
		return fmt.Sprintf("a valid request on a fresh stream was not delivered (delivered=%d errors=%d)", o.Delivered, o.Errors)
	}
	var got []graphsync.ResponseStatusCode
	nblocks := 0
	for _, s := range n.host.Out {
		if s.Peer != peer.ID("V") {
			continue
		}
		for _, m := range s.Messages() {
			for _, r := range m.Responses() {
				if r.RequestID() == id {
					got = append(got, r.Status())
				}
			}
			nblocks += len(m.Blocks())
		}
		s.Written.Reset()
	}
	if len(got) == 0 || got[len(got)-1] != graphsync.RequestCompletedFull {
		return fmt.Sprintf("a valid request from a healthy peer was not served: statuses %v, %d blocks", got, nblocks)
	}
	return ""
}

// c12Frames parses the length prefixes only: number of complete frames and
// whether anything (a partial frame, an over-long or over-size prefix) follows.
func c12Frames(b []byte) (complete int, trailing bool, barePrefix bool) {
	for len(b) > 0 {
		n, k := binary.Uvarint(b)
		if k <= 0 || n > 4<<20 || uint64(len(b)-k) < n {
			// a well-formed length prefix announcing a non-empty body, followed by nothing at all
			return complete, true, k > 0 && k == len(b) && n > 0 && n <= 4<<20
		}
		complete++
		b = b[k+int(n):]
	}
	return complete, false, false
}

func c12Judge(o c12Obs, data []byte) (sig, what string) {
	complete, trailing, barePrefix := c12Frames(data)
	switch {
	case o.Errors == 0 && o.Delivered == complete && barePrefix:
		// msgio reports a stream that ends right after a length prefix as a plain EOF
		return "malformed-message-dropped-silently/stream-ends-right-after-a-length-prefix", fmt.Sprintf("the stream ends after a length prefix announcing a body that never comes (%d complete frame(s) before it were delivered); no receive error, no reset", complete)
	case o.Errors == 0 && (o.Delivered < complete || trailing):
		return "malformed-message-dropped-silently", fmt.Sprintf("the stream holds %d complete frame(s) (trailing partial data: %v); %d message(s) were delivered and no receive error was reported", complete, trailing, o.Delivered)
	case o.BadBlock != "":
		return "unverified-block-delivered", o.BadBlock
	case o.BadID != "":
		return "invalid-request-id-delivered", o.BadID
	case o.Errors > 1:
		return "receive-error-reported-twice", fmt.Sprintf("%d receive errors for one stream", o.Errors)
	case o.Errors == 1 && !o.Reset:
		return "malformed-not-reset", "receive error reported but the stream was not reset"
	case o.Errors == 0 && o.Reset:
		return "reset-without-receive-error", "stream reset but no receive error reported"
	case o.Errors == 0 && o.Unread > 0:
		return "bytes-ignored-silently", fmt.Sprintf("%d bytes left unread with no receive error", o.Unread)
	}
	return "", ""
}

type c12Case struct {
	Mutant c12Mutant `json:"mutant"`
	From   string    `json:"from"`
}

// c12RunChunk feeds the mutants to one live node; returns per-mutant verdicts.
// If a thread panics (the process would have crashed), the run ends at that
// mutant; the caller continues after it with a fresh node.
var c12Steps int64

func c12RunChunk(ms []c12Mutant, report func(i int, o c12Obs, sig, what string)) (crashedAt int, crash string) {
	cur := -1
	crashedAt = -1
	s := vsched.Run(vsched.Config{MaxSteps: 5000000, Fast: true}, func() {
		n := c12Start()
		sinceProbe := 0
		for i, m := range ms {
			cur = i
			if n.req.Closed() {
				n.issue()
			}
			o := n.feed(peer.ID("P"), m.Bytes)
			sig, what := c12Judge(o, m.Bytes)
			if sig == "" && m.MustReject && (o.Delivered > 0 || o.Errors != 1) {
				sig, what = "malformed-frame-accepted", fmt.Sprintf("a frame holding a valid message followed by extra bytes was delivered (%d message(s), %d receive error(s))", o.Delivered, o.Errors)
			}
			sinceProbe++
			if sig == "" && (o.Delivered > 0 || sinceProbe >= 32 || i == len(ms)-1) {
				sinceProbe = 0
				if p := n.probe(); p != "" {
					sig, what = "stopped-serving-other-streams", p
				}
			}
			if sig == "" && len(n.panics) > 0 {
				// recovered per-request panics are allowed by C22, not a crash; forget them
				n.panics = nil
			}
			report(i, o, sig, what)
			if sig == "stopped-serving-other-streams" {
				cur = -1
				n.f.Cancel()
				return
			}
		}
		cur = -1
		n.f.Cancel()
	})
	c12Steps += int64(s.Steps)
	if s.Panic != nil && cur >= 0 {
		return cur, fmt.Sprint(s.Panic) + "\n" + firstLines(s.PanicStack, 12)
	}
	if s.StepLimit && cur >= 0 {
		return cur, "step limit"
	}
	return -1, ""
}

func firstLines(s string, n int) string {
	l := strings.Split(s, "\n")
	var keep []string
	for _, x := range l {
		if strings.Contains(x, "go-graphsync") || strings.Contains(x, "panic") {
			keep = append(keep, strings.TrimSpace(x))
		}
		if len(keep) >= n {
			break
		}
	}
	return strings.Join(keep, " | ")
}

func c12CrashSig(crash string) string {
	for _, k := range []string{"selectorvalidator", "responsemanager", "requestmanager", "message/v2", "network", "ipldutil"} {
		if strings.Contains(crash, k) {
			return "crash/" + strings.ReplaceAll(k, "/", "-")
		}
	}
	return "crash/other"
}

func runC12(c *core.Ctx) {
	full := c.Thorough()
	const chunk = 192
	var chunkNo int64
	for _, ph := range []int{1, 2} {
		for _, sd := range c12Seeds(full) {
			phase := ph
			if len(sd.Bytes) > 260 && ph == 1 {
				c.Note("seed %s is %d bytes", sd.Name, len(sd.Bytes))
			}
			var buf []c12Mutant
			flush := func() bool {
				if len(buf) == 0 {
					return true
				}
				chunkNo++
				ms := buf
				buf = nil
				if !c.Mine(chunkNo) {
					return true
				}
				if c.Expired() {
					c.Res.Exhaustive = false
					c.Note("deadline hit in seed %s", sd.Name)
					return false
				}
				for len(ms) > 0 {
					wd := core.Watch(fmt.Sprintf("C12 seed %s chunk %d", sd.Name, chunkNo), 120e9)
					at, crash := c12RunChunk(ms, func(i int, o c12Obs, sig, what string) {
						c.Res.Evaluations++
						m := ms[i]
						cl := "rejected"
						if o.Delivered > 0 && o.Errors == 0 {
							cl = "delivered"
						} else if o.Delivered > 0 {
							cl = "delivered-then-rejected"
						} else if o.Errors == 0 {
							cl = "clean-eof"
						}
						c.Class(m.Family + "/" + cl)
						c.Count("mutants_"+m.Family, 1)
						if sig != "" {
							c.Violate(sig, fmt.Sprintf("seed %s %s %s (%d bytes): %s", m.Seed, m.Family, m.Desc, len(m.Bytes), what), c12Case{m, "P"})
						}
					})
					wd.Stop()
					c.Res.Transitions = c12Steps
					if at < 0 {
						break
					}
					m := ms[at]
					c.Res.Evaluations++
					c.Class(m.Family + "/crash")
					if crash == "step limit" {
						c.EngineError("C12 step limit at seed %s %s %s", m.Seed, m.Family, m.Desc)
					} else {
						sig := c12CrashSig(crash)
						if strings.Contains(crash, "selectorvalidator.ValidateMaxRecursionDepth") {
							sig = "crash/new-request-without-selector"
						}
						c.Violate(sig, fmt.Sprintf("seed %s %s %s (%d bytes): a goroutine without recover panicked, the process would have crashed: %s", m.Seed, m.Family, m.Desc, len(m.Bytes), crash), c12Case{m, "P"})
					}
					ms = ms[at+1:]
				}
				return true
			}
			ok := true
			// the unmutated seed first
			if phase == 1 {
				buf = append(buf, c12Mutant{Seed: sd.Name, Family: "valid", Desc: "seed", Bytes: sd.Bytes})
			}
			c12Mutants(sd, full, phase, func(m c12Mutant) bool {
				buf = append(buf, m)
				if len(buf) >= chunk {
					ok = flush()
				}
				return ok
			})
			if !ok || !flush() {
				return
			}
		}
	}
}

func init() {
	core.Register(&core.Prop{ID: "C12", Level: "exploration",
		Rule:        "for each seed encoding (valid messages of <= ~260 bytes: requests, responses for the in-flight request, blocks, extensions, cancel/update, combinations): every truncation; every single-byte substitution (255 values per position); all pairs of substitutions within the first 16 (thorough 24) bytes from an 8- (19-)value dictionary of CBOR-significant bytes; length-prefix tampering (zero, off-by-one, non-minimal, 10/11-byte, at/over the 4MiB limit, huge); concatenations (valid+garbage, valid+valid); node-level mutations of the dag-cbor tree (every position replaced by each of 22 values of every kind incl. byte strings of 0/15/16/17/32/36 bytes and unknown enum values, byte strings resized, every map key dropped, unknown key added, list elements dropped/duplicated). Each mutant is fed as a fresh stream from peer P to the real handleNewStream in front of a live instance with an outgoing request in flight; a class is (family, delivered/rejected/clean-eof/crash)",
		Assumptions: []string{"neighbourhoods of valid encodings, not all byte strings", "stub libp2p host/stream; instance reused for <=192 consecutive mutants, liveness probe from a healthy peer after every delivered mutant and at least every 32 mutants", "recovered per-request panics are C22's subject and not counted here"},
		Run:         runC12, QuickBudget: 420, ThoroughBudget: 3000,
		Replay: func(raw json.RawMessage) string {
			var cs c12Case
			if err := json.Unmarshal(raw, &cs); err != nil {
				return err.Error()
			}
			res := "ok"
			at, crash := c12RunChunk([]c12Mutant{cs.Mutant}, func(i int, o c12Obs, sig, what string) {
				if sig != "" {
					res = sig + ": " + what
				}
			})
			if at >= 0 {
				res = "crash: " + crash
			}
			return res
		}})
}

var _ = context.Background
