package props

import (
	"encoding/json"
	"errors"
	"fmt"
	gsimpl "github.com/ipfs/go-graphsync/impl"
	"github.com/ipfs/go-graphsync/ipldutil"
	"strings"

	"github.com/ipfs/go-graphsync"
	"github.com/ipfs/go-graphsync/zzverif/vsched"
	"github.com/ipld/go-ipld-prime"
	"github.com/ipld/go-ipld-prime/datamodel"
	"github.com/ipld/go-ipld-prime/node/basicnode"
	"github.com/ipld/go-ipld-prime/traversal/selector"
	"github.com/ipld/go-ipld-prime/traversal/selector/builder"
	"github.com/libp2p/go-libp2p/core/peer"

	"verif/core"
	"verif/harness"
)

// C22: a panic in per-request code fails only that request (DESIGN 6 C22).
// Two real instances; a user-supplied callback is armed to panic at its k-th
// call while two requests run; a third request follows.

type c22Case struct {
	Callback string `json:"callback"`                    // read write commit decode reify adl chooser
	Side     string `json:"side"`                        // requestor | responder
	K        int    `json:"k"`                           // 1-based call index (counted from the start of the judged phase)
	Solo     bool   `json:"solo"`                        // only the target request runs in the judged phase
	NoCb     bool   `json:"no_panic_callback,omitempty"` // the instances are built without a panic callback (the default)
	Value    string `json:"panic_value,omitempty"`       // "" (a string) | error | cancel-error (an error wrapping the traversal's own context-cancelled error, as a callback re-panicking a failed nested load would raise)
}

func c22Selector(cb string) datamodel.Node {
	if cb == "adl" {
		ssb := builder.NewSelectorSpecBuilder(basicnode.Prototype.Any)
		return ssb.ExploreInterpretAs("adl1", ssb.ExploreRecursive(selector.RecursionLimitDepth(10), ssb.ExploreAll(ssb.ExploreRecursiveEdge()))).Node()
	}
	return harness.RecAll(10)
}

type c22Obs struct {
	res       [3]*harness.ReqResult
	dags      [3]*harness.DAG
	qPanics   []string
	rPanics   []string
	fired     bool
	calls     int
	escaped   string
	deadlock  bool
	rStatuses map[graphsync.RequestID][]graphsync.ResponseStatusCode
}

func c22Run(cs c22Case) *c22Obs {
	o := &c22Obs{rStatuses: map[graphsync.RequestID][]graphsync.ResponseStatusCode{}}
	sh := harness.Shape{Name: "chain3", Blocks: []harness.BlockSpec{{Edges: []harness.Edge{{To: 1}}}, {Edges: []harness.Edge{{To: 2, Form: harness.Inline}}}, {}}}
	for i := range o.dags {
		o.dags[i] = harness.Build(sh, fmt.Sprintf("c22-%d", i))
	}
	sel := c22Selector(cs.Callback)
	s := vsched.Run(vsched.Config{Fast: true}, func() {
		f := harness.NewFixture(false)
		qs, rs := harness.NewStore(), harness.NewStore()
		qs.Instrument, rs.Instrument = true, true
		for _, d := range o.dags {
			for i, l := range d.Links {
				rs.Put(l, d.Data[i])
			}
		}
		armed := qs
		if cs.Side == "responder" {
			armed = rs
		}
		switch cs.Value {
		case "error":
			armed.PanicValue = func(msg string) any { return errors.New(msg) }
		case "cancel-error":
			armed.PanicValue = func(msg string) any { return fmt.Errorf("%s: %w", msg, ipldutil.ContextCancelError{}) }
		}
		var nopts []gsimpl.Option
		if cs.NoCb {
			nopts = append(nopts, gsimpl.PanicCallback(nil))
		}
		q := f.AddNode(peer.ID("Q"), qs, nopts...)
		r := f.AddNode(peer.ID("R"), rs, nopts...)
		chooser := func(st *harness.Store) func(ipld.Link, ipld.LinkContext) (ipld.NodePrototype, error) {
			return func(ipld.Link, ipld.LinkContext) (ipld.NodePrototype, error) {
				st.Arm("chooser")
				return basicnode.Prototype.Any, nil
			}
		}
		q.GS.RegisterOutgoingRequestHook(func(p peer.ID, rq graphsync.RequestData, ha graphsync.OutgoingRequestHookActions) {
			ha.UseLinkTargetNodePrototypeChooser(chooser(qs))
		})
		r.GS.RegisterIncomingRequestHook(func(p peer.ID, rq graphsync.RequestData, ha graphsync.IncomingRequestHookActions) {
			ha.UseLinkTargetNodePrototypeChooser(chooser(rs))
		})
		// warm-up request (healthy) on a DAG of its own shape, before arming
		warm := harness.Build(sh, "c22-warm")
		for i, l := range warm.Links {
			rs.Put(l, warm.Data[i])
		}
		q.Request(f, r.ID, warm.Root, sel, harness.MkID(9))
		vsched.Quiesce()
		base := armed.Calls(cs.Callback)
		armed.PanicAt[cs.Callback] = base + cs.K
		o.res[0] = q.Request(f, r.ID, o.dags[0].Root, sel, harness.MkID(1))
		if !cs.Solo {
			o.res[1] = q.Request(f, r.ID, o.dags[1].Root, sel, harness.MkID(2))
		}
		vsched.Quiesce()
		o.calls = armed.Calls(cs.Callback) - base
		o.fired = o.calls >= cs.K
		delete(armed.PanicAt, cs.Callback) // disarm: the follow-up request must be healthy
		// afterwards: a fresh request must be served normally
		o.res[2] = q.Request(f, r.ID, o.dags[2].Root, sel, harness.MkID(3))
		vsched.Quiesce()
		o.qPanics, o.rPanics = q.Rec.Panics, r.Rec.Panics
		for id, st := range r.Rec.Completed {
			o.rStatuses[id] = st
		}
		f.Cancel()
	})
	o.deadlock = s.Deadlock
	if s.Panic != nil {
		o.escaped = fmt.Sprint(s.Panic) + " | " + firstLines(s.PanicStack, 6)
	}
	return o
}

func c22Judge(cs c22Case, o *c22Obs) (sig, what, class string) {
	tag := cs.Callback + "/" + cs.Side
	class = fmt.Sprintf("%s fired=%v callback-configured=%v", tag, o.fired, !cs.NoCb)
	detail := fmt.Sprintf("panic armed at call %d of %s on the %s (solo=%v): ", cs.K, cs.Callback, cs.Side, cs.Solo)
	if o.escaped != "" {
		// the call site outside any recover is what fails, with or without a configured callback
		return "panic-escaped/" + tag, detail + "the panic escaped a goroutine without recover, the process would have crashed: " + o.escaped, class
	}
	if cs.NoCb {
		tag += "/no-callback-configured"
		detail = "no panic callback configured; " + detail
	}
	if cs.Value != "" {
		tag += "/panic-value-" + cs.Value
		detail = "panic value kind " + cs.Value + "; " + detail
	}
	sel := c22Selector(cs.Callback)
	healthy := func(i int) string {
		r := o.res[i]
		if r == nil {
			return ""
		}
		all := harness.NewStore()
		for k, l := range o.dags[i].Links {
			all.Put(l, o.dags[i].Data[k])
		}
		ref := harness.Reference(o.dags[i].Root, sel, harness.RefOpts{Remote: all})
		if !r.Closed() {
			return "channels not closed"
		}
		if len(r.Errs) > 0 {
			return fmt.Sprintf("errors %v", r.ErrStrings(o.dags[i]))
		}
		if harness.VisitsString(r.Visits) != harness.VisitsString(ref.Visits) {
			return fmt.Sprintf("delivered %d nodes, expected %d", len(r.Visits), len(ref.Visits))
		}
		return ""
	}
	if h := healthy(2); h != "" {
		return "later-request-affected/" + tag, detail + "a request issued afterwards did not complete normally: " + h, class
	}
	if !o.fired {
		for i := 0; i < 2; i++ {
			if h := healthy(i); h != "" {
				return "harness-baseline-failed", detail + fmt.Sprintf("no panic fired (only %d calls) yet request %d: %s", o.calls, i+1, h), class
			}
		}
		return "", "", class
	}
	// exactly one of the concurrent requests failed, the other is unaffected.
	// Requestor-side panic: the victim's caller sees an error. Responder-side
	// panic: the responder ends the victim with a failure status (the requestor
	// may already hold every block and still complete).
	var failed []int
	for i := 0; i < 2; i++ {
		if o.res[i] == nil {
			continue
		}
		bad := healthy(i) != ""
		if cs.Side == "responder" {
			for _, st := range o.rStatuses[harness.MkID(byte(i+1))] {
				if st.IsFailure() {
					bad = true
				}
			}
		}
		if bad {
			failed = append(failed, i)
		}
	}
	pan := o.qPanics
	if cs.Side == "responder" {
		pan = o.rPanics
	}
	if len(failed) == 0 {
		return "panic-swallowed/" + tag, detail + fmt.Sprintf("the callback panicked but every request completed as if nothing happened (panic callback calls: %v; responder's completed-listener statuses: %v)", pan, o.rStatuses), class
	}
	if len(failed) > 1 {
		return "other-request-affected/" + tag, detail + "both concurrent requests failed", class
	}
	fr := o.res[failed[0]]
	if !fr.Closed() {
		return "failed-request-not-terminated/" + tag, detail + fmt.Sprintf("request %d neither completed nor closed its channels", failed[0]+1), class
	}
	if len(fr.Errs) == 0 && healthy(failed[0]) != "" {
		return "failed-request-without-error/" + tag, detail + fmt.Sprintf("request %d delivered a truncated result without any error", failed[0]+1), class
	}
	if cs.NoCb {
		return "", "", class
	}
	if len(pan) != 1 || !strings.Contains(pan[0], "injected panic in "+cs.Callback) {
		return "panic-callback-not-called-once/" + tag, detail + fmt.Sprintf("panic callback on the %s saw %v", cs.Side, pan), class
	}
	return "", "", class
}

func runC22(c *core.Ctx) {
	var idx int64
	for _, side := range []string{"requestor", "responder"} {
		for _, cb := range []string{"read", "write", "commit", "decode", "reify", "adl", "chooser"} {
			for _, mode := range []int{0, 1, 2, 3, 4} {
				solo, nocb := mode == 0, mode == 2
				value := map[int]string{3: "error", 4: "cancel-error"}[mode]
				for k := 1; k <= 16; k++ {
					idx++
					if !c.Mine(idx) {
						continue
					}
					cs := c22Case{Callback: cb, Side: side, K: k, Solo: solo, NoCb: nocb, Value: value}
					o := c22Run(cs)
					sig, what, class := c22Judge(cs, o)
					c.Res.Evaluations++
					c.Class(class)
					if o.fired {
						c.Count("panics_fired", 1)
					}
					if idx%17 == 0 {
						c.Sample(cs)
					}
					if sig != "" {
						if len(what) > 900 {
							what = what[:900] + "…"
						}
						c.Violate(sig, what, cs)
					}
				}
			}
		}
	}
}

func init() {
	core.Register(&core.Prop{ID: "C22", Level: "fault_enumeration",
		Rule:        "panic armed at call k=1..16 of each of {storage read opener, storage write opener, block committer, codec decoder, node reifier, ADL reifier reached through interpret-as, link-target prototype chooser} x {requestor, responder}, while one or two requests over 3-block chains run (after a healthy warm-up request) and a third request follows; the two-request runs are repeated on instances built without a panic callback (the default configuration) and with panic values that are errors (a plain one; one wrapping the traversal's context-cancelled error); a class is (callback, side, fired or call index beyond the run)",
		Assumptions: []string{"two real instances, default schedule", "with two concurrent requests whichever request the k-th call belongs to is the victim; the other must equal its reference result"},
		Run:         runC22, QuickBudget: 200, ThoroughBudget: 600,
		Replay: func(raw json.RawMessage) string {
			var cs c22Case
			if err := json.Unmarshal(raw, &cs); err != nil {
				return err.Error()
			}
			sig, what, _ := c22Judge(cs, c22Run(cs))
			if sig == "" {
				return "ok"
			}
			return sig + ": " + what
		}})
}
