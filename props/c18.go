package props

import (
	"encoding/json"
	"fmt"
	"sort"
	"strings"

	"github.com/ipfs/go-graphsync/notifications"
	"github.com/ipfs/go-graphsync/zzverif/vsched"

	"verif/core"
)

// C18: event publisher delivers each topic's events in order, then closes once
// (DESIGN 6 C18). Real notifications.NewPublisher; reference model below.

type pubOp struct {
	K string `json:"k"` // sub unsub pub close shut
	T int    `json:"t,omitempty"`
	S int    `json:"s,omitempty"`
}

func (o pubOp) String() string {
	switch o.K {
	case "sub":
		return fmt.Sprintf("Sub(t%d,%c)", o.T, 'a'+o.S)
	case "unsub":
		return fmt.Sprintf("Unsub(%c)", 'a'+o.S)
	case "pub":
		return fmt.Sprintf("Pub(t%d)", o.T)
	case "close":
		return fmt.Sprintf("Close(t%d)", o.T)
	}
	return "Shutdown"
}

func pubOpsString(h []pubOp) string {
	p := make([]string, len(h))
	for i, o := range h {
		p[i] = o.String()
	}
	return strings.Join(p, " ")
}

// ---- reference model: per subscriber, a list of groups; the entries of one
// group may arrive in any order (closes caused by one Unsubscribe/Shutdown).
type pubModel struct {
	subs map[[2]int]bool // (topic, sub)
	down bool
	logs map[int][][]string
	rets []string
	n    int // event counter
}

func newPubModel() *pubModel {
	return &pubModel{subs: map[[2]int]bool{}, logs: map[int][][]string{}}
}

func (m *pubModel) apply(o pubOp) {
	ret := ""
	switch o.K {
	case "sub":
		if m.down {
			ret = "false"
		} else {
			ret = "true"
			m.subs[[2]int{o.T, o.S}] = true
		}
	case "unsub":
		if m.down {
			ret = "false"
		} else {
			ret = "true"
			var g []string
			for k := range m.subs {
				if k[1] == o.S {
					g = append(g, fmt.Sprintf("close t%d", k[0]))
					delete(m.subs, k)
				}
			}
			if len(g) > 0 {
				m.logs[o.S] = append(m.logs[o.S], g)
			}
		}
	case "pub":
		m.n++
		if !m.down {
			for k := range m.subs {
				if k[0] == o.T {
					m.logs[k[1]] = append(m.logs[k[1]], []string{fmt.Sprintf("next t%d e%d", o.T, m.n)})
				}
			}
		}
	case "close":
		if !m.down {
			for k := range m.subs {
				if k[0] == o.T {
					m.logs[k[1]] = append(m.logs[k[1]], []string{fmt.Sprintf("close t%d", k[0])})
					delete(m.subs, k)
				}
			}
		}
	case "shut":
		if !m.down {
			m.down = true
			g := map[int][]string{}
			for k := range m.subs {
				g[k[1]] = append(g[k[1]], fmt.Sprintf("close t%d", k[0]))
				delete(m.subs, k)
			}
			for s, x := range g {
				m.logs[s] = append(m.logs[s], x)
			}
		}
	}
	m.rets = append(m.rets, ret)
}

// matches compares an observed per-subscriber log with the model's groups.
func groupsMatch(groups [][]string, got []string) bool {
	i := 0
	for _, g := range groups {
		if i+len(g) > len(got) {
			return false
		}
		a := append([]string{}, g...)
		b := append([]string{}, got[i:i+len(g)]...)
		sort.Strings(a)
		sort.Strings(b)
		if strings.Join(a, ";") != strings.Join(b, ";") {
			return false
		}
		i += len(g)
	}
	return i == len(got)
}

// ---- real publisher driver
type pubSub struct {
	id  int
	log *[]string
}

func (s *pubSub) OnNext(t notifications.Topic, e notifications.Event) {
	*s.log = append(*s.log, fmt.Sprintf("next t%d e%d", t.(int), e.(int)))
}
func (s *pubSub) OnClose(t notifications.Topic) {
	*s.log = append(*s.log, fmt.Sprintf("close t%d", t.(int)))
}

type pubReal struct {
	p    notifications.Publisher
	subs [4]*pubSub
	logs [4][]string
	rets []string
	n    int
}

func newPubReal() *pubReal {
	r := &pubReal{p: notifications.NewPublisher()}
	for i := range r.subs {
		r.subs[i] = &pubSub{id: i, log: &r.logs[i]}
	}
	r.p.Startup()
	return r
}

func (r *pubReal) apply(o pubOp, evNo int) string {
	switch o.K {
	case "sub":
		return fmt.Sprint(r.p.Subscribe(o.T, r.subs[o.S]))
	case "unsub":
		return fmt.Sprint(r.p.Unsubscribe(r.subs[o.S]))
	case "pub":
		r.p.Publish(o.T, evNo)
	case "close":
		r.p.Close(o.T)
	case "shut":
		r.p.Shutdown()
	}
	return ""
}

// pubRunSeq runs one caller's history; quiesce: after every op, or only at the end.
func pubRunSeq(h []pubOp, quiesceEach bool) (sig, what string) {
	m := newPubModel()
	for _, o := range h {
		m.apply(o)
	}
	var r *pubReal
	s := vsched.Run(vsched.Config{Fast: true}, func() {
		r = newPubReal()
		n := 0
		for _, o := range h {
			if o.K == "pub" {
				n++
			}
			r.rets = append(r.rets, r.apply(o, n))
			if quiesceEach {
				vsched.Quiesce()
			}
		}
		vsched.Quiesce()
		if !m.down {
			r.p.Shutdown() // let the publisher goroutine end
			vsched.Quiesce()
		}
	})
	if s.Panic != nil {
		return "panic", fmt.Sprint(s.Panic)
	}
	return pubJudge(m, r, !m.down)
}

// pubJudge: when tailShutdown the harness itself shut the publisher down after
// the judged history; the closes that causes are checked separately (exactly
// the still-open subscriptions, once each).
func pubJudge(m *pubModel, r *pubReal, tailShutdown bool) (sig, what string) {
	if strings.Join(m.rets, ",") != strings.Join(r.rets, ",") {
		return "return-values-differ", fmt.Sprintf("Subscribe/Unsubscribe returned %v, expected %v", r.rets, m.rets)
	}
	for s := 0; s < len(r.subs); s++ {
		got := r.logs[s]
		want := m.logs[s]
		if tailShutdown {
			var g []string
			for k := range m.subs {
				if k[1] == s {
					g = append(g, fmt.Sprintf("close t%d", k[0]))
				}
			}
			if len(g) > 0 {
				want = append(append([][]string{}, want...), g)
			}
		}
		if !groupsMatch(want, got) {
			kind := "events-differ"
			// classify
			closes := map[string]int{}
			after := false
			closed := map[string]bool{}
			for _, e := range got {
				f := strings.Fields(e)
				if f[0] == "close" {
					closes[f[1]]++
					closed[f[1]] = true
				} else if closed[f[1]] {
					// delivery after close is only wrong if there was no re-subscription; the model decides
					after = true
				}
			}
			for _, n := range closes {
				if n > 1 {
					kind = "closed-more-than-expected"
				}
			}
			nwant := 0
			for _, g := range want {
				nwant += len(g)
			}
			if len(got) > nwant {
				kind = "extra-delivery"
			} else if len(got) < nwant {
				kind = "missing-delivery"
			}
			_ = after
			return kind, fmt.Sprintf("subscriber %c saw %v, expected %v", 'a'+s, got, want)
		}
	}
	return "", ""
}

// canonical alphabet: topics and subscribers are symmetric, so a history may
// mention t2 only after t1 and b only after a.
func pubAlphabet(h []pubOp) []pubOp {
	maxT, maxS := 0, -1
	for _, o := range h {
		if o.T > maxT {
			maxT = o.T
		}
		if (o.K == "sub" || o.K == "unsub") && o.S > maxS {
			maxS = o.S
		}
	}
	var out []pubOp
	for t := 1; t <= min(maxT+1, 2); t++ {
		for s := 0; s <= min(maxS+1, 1); s++ {
			out = append(out, pubOp{K: "sub", T: t, S: s})
		}
	}
	for t := 1; t <= min(maxT+1, 2); t++ {
		out = append(out, pubOp{K: "pub", T: t})
	}
	for t := 1; t <= min(maxT+1, 2); t++ {
		out = append(out, pubOp{K: "close", T: t})
	}
	for s := 0; s <= min(maxS+1, 1); s++ {
		out = append(out, pubOp{K: "unsub", S: s})
	}
	out = append(out, pubOp{K: "shut"})
	return out
}

type c18Case struct {
	Mode    string    `json:"mode"` // seq-quiesce | seq-burst | conc
	History []pubOp   `json:"history,omitempty"`
	Threads [][]pubOp `json:"threads,omitempty"`
	Pre     []pubOp   `json:"pre,omitempty"`
}

func runC18(c *core.Ctx) {
	depth := 6
	if c.Thorough() {
		depth = 7
	}
	var idx int64
	var rec func(h []pubOp)
	stop := false
	rec = func(h []pubOp) {
		if stop {
			return
		}
		if len(h) > 0 {
			idx++
			if c.Mine(idx) {
				if idx%4096 == 0 && c.Expired() {
					c.Res.Exhaustive = false
					stop = true
					return
				}
				for _, mode := range []bool{true, false} {
					sig, what := pubRunSeq(h, mode)
					c.Res.Evaluations++
					c.Res.Traces++
					c.Res.Transitions += int64(len(h))
					name := "seq-burst"
					if mode {
						name = "seq-quiesce"
					}
					if sig != "" {
						c.Violate(sig, fmt.Sprintf("[%s] (%s): %s", pubOpsString(h), name, what), c18Case{Mode: name, History: append([]pubOp{}, h...)})
					}
				}
				m := newPubModel()
				for _, o := range h {
					m.apply(o)
				}
				c.Class(fmt.Sprintf("subs=%d down=%v", len(m.subs), m.down))
				c.Res.States++
				if idx%100003 == 5 {
					c.Sample(pubOpsString(h))
				}
			}
		}
		if len(h) == depth {
			return
		}
		for _, o := range pubAlphabet(h) {
			rec(append(h, o))
		}
	}
	rec(nil)
	c.Count("sequential_histories", idx)
	if stop {
		return
	}
	// crowded topics: four subscribers on one topic (two of them on the other as well), then every history
	// to depth 3 (thorough 4) over the full alphabet for 2 topics x 4 subscribers
	crowd := []pubOp{{K: "sub", T: 1, S: 0}, {K: "sub", T: 1, S: 1}, {K: "sub", T: 1, S: 2}, {K: "sub", T: 1, S: 3}, {K: "sub", T: 2, S: 1}, {K: "sub", T: 2, S: 3}}
	var full []pubOp
	for t := 1; t <= 2; t++ {
		for sb := 0; sb < 4; sb++ {
			full = append(full, pubOp{K: "sub", T: t, S: sb})
		}
		full = append(full, pubOp{K: "pub", T: t}, pubOp{K: "close", T: t})
	}
	for sb := 0; sb < 4; sb++ {
		full = append(full, pubOp{K: "unsub", S: sb})
	}
	full = append(full, pubOp{K: "shut"})
	cdepth := 3
	if c.Thorough() {
		cdepth = 4
	}
	var crec func(h []pubOp)
	crec = func(h []pubOp) {
		if stop {
			return
		}
		if len(h) > 0 {
			idx++
			if c.Mine(idx) {
				if idx%4096 == 0 && c.Expired() {
					c.Res.Exhaustive = false
					stop = true
					return
				}
				hist := append(append([]pubOp{}, crowd...), h...)
				for _, mode := range []bool{true, false} {
					sig, what := pubRunSeq(hist, mode)
					c.Res.Evaluations++
					c.Res.Traces++
					c.Res.Transitions += int64(len(hist))
					name := "seq-burst"
					if mode {
						name = "seq-quiesce"
					}
					if sig != "" {
						c.Violate(sig+"/crowded-topic", fmt.Sprintf("[%s] (%s): %s", pubOpsString(hist), name, what), c18Case{Mode: name, History: hist})
					}
				}
				c.Class(fmt.Sprintf("crowded depth=%d", len(h)))
				c.Res.States++
				c.Count("crowded_topic_histories", 1)
			}
		}
		if len(h) == cdepth {
			return
		}
		for _, o := range full {
			crec(append(h, o))
		}
	}
	crec(nil)
	if stop {
		return
	}
	// concurrent callers: every pair of 2-op sequences (thorough: 3 x 2) after a
	// fixed prelude, all schedules within the deviation bound; brute-force
	// linearizability against the model over all merges.
	pre := []pubOp{{K: "sub", T: 1, S: 0}, {K: "sub", T: 2, S: 1}}
	alpha := []pubOp{{K: "sub", T: 1, S: 1}, {K: "sub", T: 2, S: 0}, {K: "pub", T: 1}, {K: "pub", T: 2}, {K: "close", T: 1}, {K: "unsub", S: 0}, {K: "unsub", S: 1}, {K: "shut"}}
	var seqs2, seqs3 [][]pubOp
	for _, a := range alpha {
		for _, b := range alpha {
			seqs2 = append(seqs2, []pubOp{a, b})
			for _, d := range alpha {
				seqs3 = append(seqs3, []pubOp{a, b, d})
			}
		}
	}
	left := seqs2
	bound := 1
	if c.Thorough() {
		left = seqs3
		bound = 2
	}
	var cidx int64
	for _, t1 := range left {
		for _, t2 := range seqs2 {
			cidx++
			if !c.Mine(cidx) {
				continue
			}
			if c.Expired() {
				c.Res.Exhaustive = false
				return
			}
			cs := c18Case{Mode: "conc", Threads: [][]pubOp{t1, t2}, Pre: pre}
			c.Explore(core.ExploreOpts{MaxBound: bound, Cost: core.Deviation, Label: cs, NoShard: true}, func(cfg vsched.Config) core.Exec {
				return pubRunConc(cfg, cs)
			})
		}
	}
	c.Count("concurrent_scenarios", cidx)
}

// pubRunConc: prelude, then two caller threads; the observed logs must equal
// the model's under some merge of the two callers' sequences.
func pubRunConc(cfg vsched.Config, cs c18Case) core.Exec {
	var r *pubReal
	rets := make([][]string, len(cs.Threads))
	s := vsched.Run(cfg, func() {
		r = newPubReal()
		for _, o := range cs.Pre {
			r.apply(o, 0)
		}
		vsched.Quiesce()
		done := make(chan struct{}, len(cs.Threads))
		for ti, th := range cs.Threads {
			ti, th := ti, th
			go func() {
				for oi, o := range th {
					rets[ti] = append(rets[ti], r.apply(o, 100*(ti+1)+oi))
				}
				done <- struct{}{}
			}()
		}
		for range cs.Threads {
			<-done
		}
		vsched.Quiesce()
		r.p.Shutdown()
		vsched.Quiesce()
	})
	x := core.Exec{Sched: s}
	if s.Panic != nil {
		x.Viol = &core.Violation{Signature: "panic", What: fmt.Sprint(s.Panic), Replay: cs}
		return x
	}
	x.Outcome = fmt.Sprintf("%v|%v", r.logs[0], r.logs[1])
	// all merges
	a, b := cs.Threads[0], cs.Threads[1]
	ok := false
	var merge func(i, j int, m *pubModel, ra, rb []string)
	clone := func(m *pubModel) *pubModel {
		n := newPubModel()
		for k, v := range m.subs {
			n.subs[k] = v
		}
		n.down, n.n = m.down, m.n
		for k, v := range m.logs {
			n.logs[k] = append([][]string{}, v...)
		}
		return n
	}
	applyC := func(m *pubModel, o pubOp, ev int) string {
		// like apply, but event numbers are the harness's
		before := len(m.rets)
		if o.K == "pub" {
			m.n = ev - 1
		}
		m.apply(o)
		return m.rets[before]
	}
	merge = func(i, j int, m *pubModel, ra, rb []string) {
		if ok {
			return
		}
		if i == len(a) && j == len(b) {
			if strings.Join(ra, ",") != strings.Join(rets[0], ",") || strings.Join(rb, ",") != strings.Join(rets[1], ",") {
				return
			}
			for s := 0; s < 2; s++ {
				want := m.logs[s]
				if !m.down {
					var g []string
					for k := range m.subs {
						if k[1] == s {
							g = append(g, fmt.Sprintf("close t%d", k[0]))
						}
					}
					if len(g) > 0 {
						want = append(append([][]string{}, want...), g)
					}
				}
				if !groupsMatch(want, r.logs[s]) {
					return
				}
			}
			ok = true
			return
		}
		if i < len(a) {
			m2 := clone(m)
			rv := applyC(m2, a[i], 100+i)
			merge(i+1, j, m2, append(append([]string{}, ra...), rv), rb)
		}
		if j < len(b) {
			m2 := clone(m)
			rv := applyC(m2, b[j], 200+j)
			merge(i, j+1, m2, ra, append(append([]string{}, rb...), rv))
		}
	}
	m0 := newPubModel()
	for _, o := range cs.Pre {
		m0.apply(o)
	}
	m0.rets = nil
	merge(0, 0, m0, nil, nil)
	if !ok {
		x.Viol = &core.Violation{Signature: "not-linearizable", What: fmt.Sprintf("after %s, callers [%s] || [%s]: subscriber logs a=%v b=%v, returns %v match no interleaving of the two callers", pubOpsString(cs.Pre), pubOpsString(a), pubOpsString(b), r.logs[0], r.logs[1], rets), Replay: cs}
	}
	return x
}

func init() {
	core.Register(&core.Prop{ID: "C18", Level: "model_checking",
		Rule:        "(a) every history of {Subscribe(t,s), Unsubscribe(s), Publish(t), Close(t), Shutdown} over 2 topics x 2 subscribers up to the stated depth (topic/subscriber symmetry reduced; tree search, no state merging because the registry is private), each executed on the real publisher twice: quiescing after every call, and issuing all calls before the publisher goroutine runs; (a') crowded topics: after a prelude that subscribes four subscribers to one topic and two of them to the other, every history to depth 3 (thorough 4) over the full alphabet for 2 topics x 4 subscribers, same two modes; (b) every pair of 2-call (thorough 3x2) caller sequences from an 8-op alphabet run as two concurrent caller threads after a fixed prelude, all schedules within the deviation bound, observed logs and return values must equal the reference model under some merge of the two sequences; a class is a distinct (open subscriptions, shut down) model state / distinct observed logs",
		Assumptions: []string{"reference model: subscription set; Subscribe while subscribed is idempotent; closes caused by one Unsubscribe/Shutdown may arrive in any order", "after the judged history the harness shuts the publisher down; the closes that causes must be exactly the still-open subscriptions"},
		Run:         runC18, QuickBudget: 300, ThoroughBudget: 2400,
		Replay: func(raw json.RawMessage) string {
			var w struct {
				Case    c18Case `json:"case"`
				Label   c18Case `json:"label"`
				Prefix  []int   `json:"prefix"`
				Mode    string  `json:"mode"`
				History []pubOp `json:"history"`
			}
			if err := json.Unmarshal(raw, &w); err != nil {
				return err.Error()
			}
			if w.Mode != "" && w.Mode != "conc" {
				sig, what := pubRunSeq(w.History, w.Mode == "seq-quiesce")
				if sig == "" {
					return "ok"
				}
				return sig + ": " + what
			}
			cs := w.Label
			x := pubRunConc(vsched.Config{Prefix: w.Prefix}, cs)
			if x.Viol == nil {
				return "ok"
			}
			return x.Viol.Signature + ": " + x.Viol.What
		}})
}
