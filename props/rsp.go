package props

import (
	"context"
	"errors"
	"fmt"
	"sort"
	"strings"

	"github.com/ipfs/go-graphsync"
	gsimpl "github.com/ipfs/go-graphsync/impl"
	gsmsg "github.com/ipfs/go-graphsync/message"
	"github.com/ipfs/go-graphsync/zzverif/vsched"
	cidlink "github.com/ipld/go-ipld-prime/linking/cid"
	"github.com/ipld/go-ipld-prime/node/basicnode"
	"github.com/libp2p/go-libp2p/core/peer"

	"verif/harness"
)

// Responder world (C05, C23, C21 whole-instance, C25): one real responder R,
// scripted requestor peers, gated network. A case fixes the request-hook
// behaviour, a list of actions each placed after a number of delivery events,
// and send/connect faults on R's outgoing link.

type rspAct struct {
	K   string `json:"k"`   // p-cancel p-update p-new2 r-pause r-unpause r-cancel r-update
	Pos int    `json:"pos"` // performed once this many delivery events happened (and earlier acts are done)
}

type rspCase struct {
	Hook     string   `json:"hook"` // accept reject pause error accept-ext
	Acts     []rspAct `json:"acts,omitempty"`
	FailSend []int    `json:"fail_sends,omitempty"` // indexes (0-based) of R->P1 SendMsg calls that fail
	FailConn []int    `json:"fail_connects,omitempty"`
	Retries  int      `json:"retries,omitempty"`
	Workers  int      `json:"workers,omitempty"`
	PerPeer  int      `json:"per_peer_max,omitempty"`
	Reqs     int      `json:"requests,omitempty"`       // requests P1 sends up front (default 1)
	Sched    bool     `json:"schedule_level,omitempty"` // auto network, actions by their own threads (schedule exploration)
	Blocks   int      `json:"blocks,omitempty"`         // chain length (default 3)
	HoldSend []int    `json:"hold_sends,omitempty"`     // these R->P1 sends stall until the "release" action (then fail if also listed in fail_sends)
}

func (c rspCase) String() string {
	var a []string
	for _, x := range c.Acts {
		a = append(a, fmt.Sprintf("%s@%d", x.K, x.Pos))
	}
	s := fmt.Sprintf("request hook %s; actions [%s]", c.Hook, strings.Join(a, " "))
	if len(c.FailSend) > 0 {
		s += fmt.Sprintf("; responder's sends %v fail (retries %d)", c.FailSend, c.Retries)
	}
	if len(c.HoldSend) > 0 {
		s += fmt.Sprintf("; sends %v stall until released", c.HoldSend)
	}
	if c.Blocks > 0 {
		s += fmt.Sprintf("; %d-block DAG", c.Blocks)
	}
	if len(c.FailConn) > 0 {
		s += fmt.Sprintf("; connects %v fail", c.FailConn)
	}
	if c.Workers > 0 || c.PerPeer > 0 || c.Reqs > 1 {
		s += fmt.Sprintf("; workers=%d perPeer=%d requests=%d", c.Workers, c.PerPeer, c.Reqs)
	}
	return s
}

type rspObs struct {
	ids        []graphsync.RequestID
	received   map[graphsync.RequestID]bool // New request delivered to R
	completed  map[graphsync.RequestID][]graphsync.ResponseStatusCode
	cancelled  map[graphsync.RequestID]int
	neterr     map[graphsync.RequestID]int
	wireTerm   map[graphsync.RequestID][]graphsync.ResponseStatusCode // terminal statuses that reached P1
	wireSent   map[graphsync.RequestID][]graphsync.ResponseStatusCode // terminal statuses handed to the network (incl. failed sends)
	stateLeft  map[graphsync.RequestID]string                         // state still listed at the end
	queueLeft  []string
	protected  []string
	diag       []string // peerstate diagnostics seen at quiescent points
	stats      string
	maxRunning int
	maxPerPeer int
	trace      []string
	deliveries int
	panicked   string
	deadlock   bool
	apiErrs    []string
}

func rspRun(cfg vsched.Config, cs rspCase) (*rspObs, *vsched.Sched) {
	o := &rspObs{received: map[graphsync.RequestID]bool{}, completed: map[graphsync.RequestID][]graphsync.ResponseStatusCode{}, cancelled: map[graphsync.RequestID]int{},
		neterr: map[graphsync.RequestID]int{}, wireTerm: map[graphsync.RequestID][]graphsync.ResponseStatusCode{}, wireSent: map[graphsync.RequestID][]graphsync.ResponseStatusCode{}, stateLeft: map[graphsync.RequestID]string{}}
	sh := harness.Shape{Name: "chain3", Blocks: []harness.BlockSpec{{Edges: []harness.Edge{{To: 1}}}, {Edges: []harness.Edge{{To: 2, Form: harness.Inline}}}, {}}}
	if cs.Blocks == 1 {
		sh = harness.Shape{Name: "chain1", Blocks: []harness.BlockSpec{{}}}
	} else if cs.Blocks == 2 {
		sh = harness.Shape{Name: "chain2", Blocks: []harness.BlockSpec{{Edges: []harness.Edge{{To: 1}}}, {}}}
	}
	nreq := max(cs.Reqs, 1)
	sel := harness.RecAll(10)
	s := vsched.Run(cfg, func() {
		f := harness.NewFixture(!cs.Sched)
		rs := harness.NewStore()
		var dags []*harness.DAG
		for i := 0; i < nreq+1; i++ {
			d := harness.Build(sh, fmt.Sprintf("rsp-%d", i))
			dags = append(dags, d)
			for k, l := range d.Links {
				rs.Put(l, d.Data[k])
			}
		}
		var opts []gsimpl.Option
		if cs.Retries > 0 {
			opts = append(opts, gsimpl.MessageSendRetries(cs.Retries))
		}
		if cs.Workers > 0 {
			opts = append(opts, gsimpl.MaxInProgressIncomingRequests(uint64(cs.Workers)))
		}
		if cs.PerPeer > 0 {
			opts = append(opts, gsimpl.MaxInProgressIncomingRequestsPerPeer(uint64(cs.PerPeer)))
		}
		r := f.AddNode(peer.ID("R"), rs, opts...)
		p1 := f.AddScript(peer.ID("P1"))
		gsr := r.GS.(*gsimpl.GraphSync)
		for i := 0; i < nreq+1; i++ {
			o.ids = append(o.ids, harness.MkID(byte(21+i)))
		}
		fails := map[int]bool{}
		for _, k := range cs.FailSend {
			fails[k] = true
		}
		holds := map[int]bool{}
		for _, k := range cs.HoldSend {
			holds[k] = true
		}
		cfails := map[int]bool{}
		for _, k := range cs.FailConn {
			cfails[k] = true
		}
		f.Net.SendFault = func(from, to peer.ID, k int, m gsmsg.GraphSyncMessage) harness.FaultAction {
			if from == r.ID {
				for _, rsp := range m.Responses() {
					if rsp.Status().IsTerminal() {
						o.wireSent[rsp.RequestID()] = append(o.wireSent[rsp.RequestID()], rsp.Status())
					}
				}
				if holds[k] && fails[k] {
					return harness.SendHoldFail
				}
				if holds[k] {
					return harness.SendHold
				}
				if fails[k] {
					return harness.SendFail
				}
			}
			return harness.SendOK
		}
		f.Net.ConnectFault = func(from, to peer.ID, k int) bool { return from == r.ID && cfails[k] }
		running, perPeer := 0, map[peer.ID]int{}
		r.GS.RegisterIncomingRequestProcessingListener(func(p peer.ID, rq graphsync.RequestData, n int) {})
		r.GS.RegisterIncomingRequestHook(func(p peer.ID, rq graphsync.RequestData, ha graphsync.IncomingRequestHookActions) {
			o.received[rq.ID()] = true
			switch cs.Hook {
			case "accept":
				ha.ValidateRequest()
			case "reject":
			case "pause":
				ha.ValidateRequest()
				ha.PauseResponse()
			case "error":
				ha.ValidateRequest()
				ha.TerminateWithError(errors.New("hook error"))
			case "accept-ext":
				ha.ValidateRequest()
				ha.SendExtensionData(graphsync.ExtensionData{Name: "x/hook", Data: basicnode.NewString("hello")})
			}
		})
		// work-limit monitor: a response is "running" between its first and its last outgoing block hook... use the
		// task queue's own active count at quiescent points instead (pure read)
		_ = running
		_ = perPeer
		observe := func() {
			for _, pid := range []peer.ID{p1.ID} {
				ps := gsr.PeerState(pid)
				for id, ds := range ps.IncomingState.Diagnostics() {
					o.diag = append(o.diag, fmt.Sprintf("incoming %s: %s", harness.ShortID(id), strings.Join(ds, "; ")))
				}
				act := len(ps.IncomingState.TaskQueueState.Active)
				o.maxPerPeer = max(o.maxPerPeer, act)
			}
			st := r.GS.Stats()
			o.maxRunning = max(o.maxRunning, int(st.IncomingRequests.Active))
		}
		mkReq := func(i int) gsmsg.GraphSyncMessage {
			return harness.ReqMsg(gsmsg.NewRequest(o.ids[i], dags[i].Root.(cidlink.Link).Cid, sel, 1))
		}
		vsched.Quiesce()
		vsched.Mark()
		for i := 0; i < nreq; i++ {
			p1.Say(r.ID, mkReq(i))
		}
		id := o.ids[0]
		doAct := func(a rspAct) {
			var err error
			switch a.K {
			case "p-cancel":
				p1.Say(r.ID, harness.ReqMsg(gsmsg.NewCancelRequest(id)))
			case "p-update":
				p1.Say(r.ID, harness.ReqMsg(gsmsg.NewUpdateRequest(id, graphsync.ExtensionData{Name: "x/upd", Data: basicnode.NewInt(1)})))
			case "p-new2":
				p1.Say(r.ID, mkReq(nreq))
			case "p-cancel2":
				p1.Say(r.ID, harness.ReqMsg(gsmsg.NewCancelRequest(o.ids[min(1, len(o.ids)-1)])))
			case "release":
				f.Net.ReleaseHeld()
			case "r-pause":
				err = r.GS.Pause(context.Background(), id)
			case "r-unpause":
				err = r.GS.Unpause(context.Background(), id)
			case "r-cancel":
				err = r.GS.Cancel(context.Background(), id)
			case "r-update":
				err = r.GS.SendUpdate(context.Background(), id, graphsync.ExtensionData{Name: "x/rupd", Data: basicnode.NewInt(2)})
			}
			if err != nil {
				o.apiErrs = append(o.apiErrs, a.K+": "+err.Error())
			}
		}
		if cs.Sched {
			for _, a := range cs.Acts {
				a := a
				vsched.GoN("act-"+a.K, func() { doAct(a) })
			}
			vsched.Quiesce()
		} else {
			next := 0
			evs := f.Deliveries(r.ID, p1.ID)
			for _, e := range evs {
				do := e.Do
				e.Do = func() { o.deliveries++; do() }
			}
			act := &harness.Event{Name: "act",
				Enabled: func() bool { return next < len(cs.Acts) && o.deliveries >= cs.Acts[next].Pos },
				Do:      func() { a := cs.Acts[next]; next++; doAct(a) }}
			all := append([]*harness.Event{act}, evs...)
			for step := 0; step < 300; step++ {
				var en *harness.Event
				for _, e := range all {
					if e.Enabled() {
						en = e
						break
					}
				}
				if en == nil {
					break
				}
				o.trace = append(o.trace, en.Name)
				en.Do()
				vsched.Quiesce()
				observe()
			}
		}
		f.Net.ReleaseHeld()
		// every paused response is eventually unpaused (the property's proviso)
		for round := 0; round < 4; round++ {
			paused := false
			for rid, st := range gsr.PeerState(p1.ID).IncomingState.RequestStates {
				if st == graphsync.Paused {
					paused = true
					_ = r.GS.Unpause(context.Background(), rid)
				}
			}
			vsched.Quiesce()
			for f.Net.Node(r.ID).Pending(p1.ID) > 0 || f.Net.Node(p1.ID).Pending(r.ID) > 0 {
				f.Net.Node(r.ID).DeliverNext(p1.ID)
				f.Net.Node(p1.ID).DeliverNext(r.ID)
				vsched.Quiesce()
				observe()
			}
			if !paused {
				break
			}
		}
		// final observations
		o.completed, o.cancelled, o.neterr = r.Rec.Completed, r.Rec.Cancelled, r.Rec.NetErr
		for _, w := range p1.Inbox {
			for _, rsp := range w.Msg.Responses() {
				if rsp.Status().IsTerminal() {
					o.wireTerm[rsp.RequestID()] = append(o.wireTerm[rsp.RequestID()], rsp.Status())
				}
			}
		}
		ps := gsr.PeerState(p1.ID)
		for rid, st := range ps.IncomingState.RequestStates {
			o.stateLeft[rid] = st.String()
		}
		for _, t := range ps.IncomingState.TaskQueueState.Active {
			o.queueLeft = append(o.queueLeft, "active:"+harness.ShortID(t))
		}
		for _, t := range ps.IncomingState.TaskQueueState.Pending {
			o.queueLeft = append(o.queueLeft, "pending:"+harness.ShortID(t))
		}
		for k := range r.NN.ProtectBalance() {
			o.protected = append(o.protected, k)
		}
		sort.Strings(o.protected)
		st := r.GS.Stats()
		o.stats = fmt.Sprintf("active=%d pending=%d allocated=%d pendingAlloc=%d", st.IncomingRequests.Active, st.IncomingRequests.Pending, st.OutgoingResponses.TotalAllocatedAllPeers, st.OutgoingResponses.TotalPendingAllocations)
		f.Cancel()
	})
	o.deadlock = s.Deadlock
	if s.Panic != nil {
		o.panicked = fmt.Sprint(s.Panic) + " | " + firstLines(s.PanicStack, 6)
	}
	return o, s
}
