package props

import (
	"context"
	"encoding/json"
	"fmt"
	"strings"

	"github.com/ipfs/go-graphsync"
	gsmsg "github.com/ipfs/go-graphsync/message"
	"github.com/ipfs/go-graphsync/selectorvalidator"
	"github.com/ipfs/go-graphsync/zzverif/vsched"
	"github.com/ipld/go-ipld-prime/datamodel"
	"github.com/ipld/go-ipld-prime/fluent/qp"
	cidlink "github.com/ipld/go-ipld-prime/linking/cid"
	"github.com/ipld/go-ipld-prime/node/basicnode"
	"github.com/ipld/go-ipld-prime/traversal/selector"
	"github.com/libp2p/go-libp2p/core/peer"

	"verif/core"
	"verif/harness"
)

// C08: default validation rejects unbounded / too-deep recursion (DESIGN 6 C08).
// Selector specs are generated from an own grammar (AST), rendered to IPLD
// nodes by hand, kept iff go-ipld-prime's ParseSelector accepts them.

type selAST struct {
	K     string // . a f f2 i r | R @ ~
	Kids  []*selAST
	Limit int64 // R: -1 none
	Stop  bool  // R: with stop-at condition
}

func (a *selAST) String() string {
	switch a.K {
	case ".", "@":
		return a.K
	case "R":
		l := "none"
		if a.Limit >= 0 {
			l = fmt.Sprint(a.Limit)
		}
		st := ""
		if a.Stop {
			st = "!"
		}
		return "R" + l + st + "(" + a.Kids[0].String() + ")"
	}
	parts := []string{}
	for _, k := range a.Kids {
		parts = append(parts, k.String())
	}
	return a.K + "(" + strings.Join(parts, ",") + ")"
}

// bad: the reference predicate of the statement.
func (a *selAST) bad() bool {
	if a.K == "R" && (a.Limit < 0 || a.Limit > 100) {
		return true
	}
	for _, k := range a.Kids {
		if k.bad() {
			return true
		}
	}
	return false
}

func (a *selAST) hasKind(k string) bool {
	if a.K == k {
		return true
	}
	for _, c := range a.Kids {
		if c.hasKind(k) {
			return true
		}
	}
	return false
}

func one(key string, v func(na datamodel.NodeAssembler)) func(na datamodel.NodeAssembler) {
	return func(na datamodel.NodeAssembler) {
		qp.Map(1, func(ma datamodel.MapAssembler) { qp.MapEntry(ma, key, v) })(na)
	}
}

func (a *selAST) asm() func(na datamodel.NodeAssembler) {
	next := func(i int) func(datamodel.NodeAssembler) { return a.Kids[i].asm() }
	switch a.K {
	case ".":
		return one(selector.SelectorKey_Matcher, qp.Map(0, func(datamodel.MapAssembler) {}))
	case "@":
		return one(selector.SelectorKey_ExploreRecursiveEdge, qp.Map(0, func(datamodel.MapAssembler) {}))
	case "a":
		return one(selector.SelectorKey_ExploreAll, qp.Map(1, func(ma datamodel.MapAssembler) { qp.MapEntry(ma, selector.SelectorKey_Next, next(0)) }))
	case "f":
		return one(selector.SelectorKey_ExploreFields, qp.Map(1, func(ma datamodel.MapAssembler) {
			qp.MapEntry(ma, selector.SelectorKey_Fields, qp.Map(1, func(fa datamodel.MapAssembler) { qp.MapEntry(fa, "e0", next(0)) }))
		}))
	case "f2":
		return one(selector.SelectorKey_ExploreFields, qp.Map(1, func(ma datamodel.MapAssembler) {
			qp.MapEntry(ma, selector.SelectorKey_Fields, qp.Map(2, func(fa datamodel.MapAssembler) {
				qp.MapEntry(fa, "e0", next(0))
				qp.MapEntry(fa, "R", next(1)) // a field that happens to be named like a selector key
			}))
		}))
	case "i":
		return one(selector.SelectorKey_ExploreIndex, qp.Map(2, func(ma datamodel.MapAssembler) {
			qp.MapEntry(ma, selector.SelectorKey_Index, qp.Int(0))
			qp.MapEntry(ma, selector.SelectorKey_Next, next(0))
		}))
	case "r":
		return one(selector.SelectorKey_ExploreRange, qp.Map(3, func(ma datamodel.MapAssembler) {
			qp.MapEntry(ma, selector.SelectorKey_Start, qp.Int(0))
			qp.MapEntry(ma, selector.SelectorKey_End, qp.Int(2))
			qp.MapEntry(ma, selector.SelectorKey_Next, next(0))
		}))
	case "|":
		return one(selector.SelectorKey_ExploreUnion, qp.List(int64(len(a.Kids)), func(la datamodel.ListAssembler) {
			for i := range a.Kids {
				qp.ListEntry(la, next(i))
			}
		}))
	case "~":
		return one(selector.SelectorKey_ExploreInterpretAs, qp.Map(2, func(ma datamodel.MapAssembler) {
			qp.MapEntry(ma, selector.SelectorKey_As, qp.String("noadl"))
			qp.MapEntry(ma, selector.SelectorKey_Next, next(0))
		}))
	case "R":
		return one(selector.SelectorKey_ExploreRecursive, qp.Map(3, func(ma datamodel.MapAssembler) {
			if a.Limit < 0 {
				qp.MapEntry(ma, selector.SelectorKey_Limit, one(selector.SelectorKey_LimitNone, qp.Map(0, func(datamodel.MapAssembler) {})))
			} else {
				qp.MapEntry(ma, selector.SelectorKey_Limit, one(selector.SelectorKey_LimitDepth, qp.Int(a.Limit)))
			}
			qp.MapEntry(ma, selector.SelectorKey_Sequence, next(0))
			if a.Stop {
				qp.MapEntry(ma, selector.SelectorKey_StopAt, one("/", qp.Link(c08StopLink)))
			}
		}))
	}
	panic("kind " + a.K)
}

var c08StopLink datamodel.Link

func (a *selAST) node() datamodel.Node {
	n, err := qp.BuildMap(basicnode.Prototype.Any, 1, func(ma datamodel.MapAssembler) {
		// asm builds a single-entry map; unwrap by building directly
	})
	_ = n
	_ = err
	nb := basicnode.Prototype.Any.NewBuilder()
	a.asm()(nb)
	return nb.Build()
}

var c08Limits = []int64{-1, 1, 100, 101, 1 << 31}

// c08Small: the fixed set used for the second child of binary kinds.
func c08Small() []*selAST {
	ae := &selAST{K: "a", Kids: []*selAST{{K: "@"}}}
	return []*selAST{
		{K: "."}, {K: "@"}, {K: "a", Kids: []*selAST{{K: "."}}},
		{K: "R", Limit: -1, Kids: []*selAST{ae}}, {K: "R", Limit: 100, Kids: []*selAST{ae}}, {K: "R", Limit: 101, Kids: []*selAST{ae}},
		{K: "~", Kids: []*selAST{{K: "R", Limit: -1, Kids: []*selAST{ae}}}},
	}
}

// c08Gen enumerates all ASTs of nesting depth <= d (binary kinds: one child
// from depth d-1, the other from the small set, both orders).
func c08Gen(d int, memo map[int][]*selAST) []*selAST {
	if v, ok := memo[d]; ok {
		return v
	}
	out := []*selAST{{K: "."}, {K: "@"}}
	if d > 1 {
		sub := c08Gen(d-1, memo)
		small := c08Small()
		for _, s := range sub {
			for _, k := range []string{"a", "f", "i", "r", "~"} {
				out = append(out, &selAST{K: k, Kids: []*selAST{s}})
			}
			for _, l := range c08Limits {
				out = append(out, &selAST{K: "R", Limit: l, Kids: []*selAST{s}}, &selAST{K: "R", Limit: l, Stop: true, Kids: []*selAST{s}})
			}
			for _, k := range []string{"f2", "|"} {
				for _, sm := range small {
					out = append(out, &selAST{K: k, Kids: []*selAST{s, sm}}, &selAST{K: k, Kids: []*selAST{sm, s}})
				}
			}
		}
	}
	memo[d] = out
	return out
}

func c08Validate(a *selAST) (sig, what string, wellFormed bool) {
	n := a.node()
	if _, err := selector.ParseSelector(n); err != nil {
		return "", "", false
	}
	err := selectorvalidator.ValidateMaxRecursionDepth(n, 100)
	bad := a.bad()
	kind := "plain"
	if a.hasKind("~") {
		kind = "under-interpret-as"
	}
	if bad && err == nil {
		return "unbounded-or-too-deep-recursion-accepted/" + kind, fmt.Sprintf("selector %s contains a recursion that is unbounded or deeper than 100 but passes default validation", a), true
	}
	if !bad && err != nil {
		return "bounded-recursion-rejected/" + kind, fmt.Sprintf("selector %s has only recursion limits <= 100 but default validation rejects it: %v", a, err), true
	}
	return "", "", true
}

// c08EndToEnd sends a New request with the selector to a real responder with
// default options and reads the status on the wire.
func c08EndToEnd(a *selAST, hook string) (sig, what string) {
	n := a.node()
	d := harness.Build(harness.Shape{Blocks: []harness.BlockSpec{{}}}, "")
	var statuses []graphsync.ResponseStatusCode
	var panicked string
	s := vsched.Run(vsched.Config{Fast: true}, func() {
		f := harness.NewFixture(false)
		split := harness.Split{2}
		_, rs := d.Stores(split)
		r := f.AddNode(peer.ID("R"), rs)
		q := f.AddScript(peer.ID("Q"))
		id := harness.MkID(1)
		// an application hook that does anything but validate leaves the verdict to the default validator
		switch hook {
		case "pause":
			r.GS.RegisterIncomingRequestHook(func(p peer.ID, rd graphsync.RequestData, ha graphsync.IncomingRequestHookActions) {
				ha.PauseResponse()
			})
		case "ext":
			r.GS.RegisterIncomingRequestHook(func(p peer.ID, rd graphsync.RequestData, ha graphsync.IncomingRequestHookActions) {
				ha.SendExtensionData(graphsync.ExtensionData{Name: "app/x", Data: basicnode.NewInt(1)})
			})
		case "links":
			r.GS.RegisterIncomingRequestHook(func(p peer.ID, rd graphsync.RequestData, ha graphsync.IncomingRequestHookActions) {
				ha.MaxLinks(5)
			})
		}
		q.Say(r.ID, harness.ReqMsg(gsmsg.NewRequest(id, d.Root.(cidlink.Link).Cid, n, graphsync.Priority(0))))
		vsched.Quiesce()
		if hook == "pause" {
			// resuming must not serve what should have been rejected
			_ = r.GS.Unpause(context.Background(), id)
			vsched.Quiesce()
		}
		for _, p := range q.ResponsesFor(r.ID, id) {
			statuses = append(statuses, p.Status)
		}
		f.Cancel()
	})
	if s.Panic != nil {
		panicked = fmt.Sprint(s.Panic)
		return "panic", fmt.Sprintf("selector %s: %s", a, panicked)
	}
	rejected := false
	for _, st := range statuses {
		if st == graphsync.RequestRejected {
			rejected = true
		}
	}
	kind := "plain"
	if a.hasKind("~") {
		kind = "under-interpret-as"
	}
	with := ""
	if hook != "" {
		kind += "/hook-" + hook
		with = " (an incoming-request hook that only does `" + hook + "` is registered)"
	}
	if len(statuses) == 0 {
		return "no-response", fmt.Sprintf("selector %s: responder sent no response%s", a, with)
	}
	if a.bad() && (!rejected || len(statuses) != 1) {
		return "unbounded-or-too-deep-recursion-accepted/" + kind, fmt.Sprintf("selector %s: responder with default settings answered %v instead of only rejecting%s", a, statuses, with)
	}
	if !a.bad() && rejected {
		return "bounded-recursion-rejected/" + kind, fmt.Sprintf("selector %s: responder with default settings rejected a request whose recursions are all <= 100%s", a, with)
	}
	return "", ""
}

type c08Chain struct {
	ast    *selAST
	kind   string
	bottom string
	n      int
}

// c08Chains: for every unary clause kind (and union/fields with a harmless
// sibling, and bounded recursion), chains of length 1..max ending in a
// recursion with limit none / 101 / 100.
func c08Chains(max int) []c08Chain {
	var out []c08Chain
	ae := func() *selAST { return &selAST{K: "a", Kids: []*selAST{{K: "@"}}} }
	bottoms := map[string]func() *selAST{
		"Rnone": func() *selAST { return &selAST{K: "R", Limit: -1, Kids: []*selAST{ae()}} },
		"R101":  func() *selAST { return &selAST{K: "R", Limit: 101, Kids: []*selAST{ae()}} },
		"R100":  func() *selAST { return &selAST{K: "R", Limit: 100, Kids: []*selAST{ae()}} },
	}
	wrap := map[string]func(in *selAST) *selAST{
		"a":  func(in *selAST) *selAST { return &selAST{K: "a", Kids: []*selAST{in}} },
		"f":  func(in *selAST) *selAST { return &selAST{K: "f", Kids: []*selAST{in}} },
		"i":  func(in *selAST) *selAST { return &selAST{K: "i", Kids: []*selAST{in}} },
		"r":  func(in *selAST) *selAST { return &selAST{K: "r", Kids: []*selAST{in}} },
		"~":  func(in *selAST) *selAST { return &selAST{K: "~", Kids: []*selAST{in}} },
		"|":  func(in *selAST) *selAST { return &selAST{K: "|", Kids: []*selAST{{K: "."}, in}} },
		"f2": func(in *selAST) *selAST { return &selAST{K: "f2", Kids: []*selAST{in, {K: "."}}} },
		"R7": func(in *selAST) *selAST {
			return &selAST{K: "R", Limit: 7, Kids: []*selAST{{K: "|", Kids: []*selAST{ae(), in}}}}
		},
	}
	for _, wk := range []string{"a", "f", "i", "r", "~", "|", "f2", "R7"} {
		for _, bk := range []string{"Rnone", "R101", "R100"} {
			for n := 1; n <= max; n++ {
				// dense up to 40, then every 7th length
				if n > 40 && n%7 != 0 {
					continue
				}
				cur := bottoms[bk]()
				for i := 0; i < n; i++ {
					cur = wrap[wk](cur)
				}
				out = append(out, c08Chain{cur, wk, bk, n})
			}
		}
	}
	return out
}

type c08Case struct {
	Depth int    `json:"depth"`
	Index int    `json:"index"`
	E2E   bool   `json:"end_to_end"`
	Hook  string `json:"hook,omitempty"`
	Spec  string `json:"spec"`
}

func runC08(c *core.Ctx) {
	depth := 4
	if c.Thorough() {
		depth = 5
	}
	memo := map[int][]*selAST{}
	var idx int64
	// end-to-end for depth <= 3 first (few), then validator-level for the full depth
	for di, a := range c08Gen(3, memo) {
		idx++
		if !c.Mine(idx) {
			continue
		}
		if _, _, wf := c08Validate(a); !wf {
			continue
		}
		for _, hook := range []string{"", "pause", "ext", "links"} {
			sig, what := c08EndToEnd(a, hook)
			c.Res.Evaluations++
			c.Count("end_to_end_requests", 1)
			c.Class(fmt.Sprintf("e2e bad=%v interpretAs=%v hook=%s", a.bad(), a.hasKind("~"), hook))
			if sig != "" {
				c.Violate(sig, what, c08Case{3, di, true, hook, a.String()})
			}
		}
	}
	// deep chains: a recursion at the bottom of 1..maxChain nested unary clauses of one kind
	maxChain := 150
	if c.Thorough() {
		maxChain = 400
	}
	for _, a := range c08Chains(maxChain) {
		idx++
		if !c.Mine(idx) {
			continue
		}
		sig, what, wf := c08Validate(a.ast)
		if !wf {
			c.Count("ill_formed_skipped", 1)
			continue
		}
		c.Res.Evaluations++
		c.Count("deep_chain_specs", 1)
		c.Class(fmt.Sprintf("chain bad=%v kind=%s deep=%v", a.ast.bad(), a.kind, a.n > 30))
		if sig != "" {
			c.Violate(sig+"/deep-nesting", fmt.Sprintf("chain of %d nested %q clauses over %s: %s", a.n, a.kind, a.bottom, strings.SplitN(what, " contains", 2)[len(strings.SplitN(what, " contains", 2))-1]), c08Case{Depth: a.n, Spec: a.kind + "/" + a.bottom, Index: -1})
		}
	}
	all := c08Gen(depth, memo)
	for di, a := range all {
		idx++
		if !c.Mine(idx) {
			continue
		}
		if di%4096 == 0 && c.Expired() {
			c.Res.Exhaustive = false
			c.Note("deadline hit at spec %d of %d", di, len(all))
			return
		}
		sig, what, wf := c08Validate(a)
		if !wf {
			c.Count("ill_formed_skipped", 1)
			continue
		}
		c.Res.Evaluations++
		c.Class(fmt.Sprintf("bad=%v interpretAs=%v union=%v nestedR=%v", a.bad(), a.hasKind("~"), a.hasKind("|"), strings.Count(a.String(), "R") > 1))
		if di%50021 == 7 {
			c.Sample(a.String())
		}
		if sig != "" {
			c.Violate(sig, what, c08Case{depth, di, false, "", a.String()})
		}
	}
	c.Count("specs_generated", int64(len(all)))
}

func init() {
	d := harness.Build(harness.Shape{Blocks: []harness.BlockSpec{{}}}, "stop")
	c08StopLink = d.Root
	core.Register(&core.Prop{ID: "C08", Level: "exploration",
		Rule:        "(a) chains of 1..150 (thorough 400) nested clauses of each kind over a recursion with limit none/101/100; (b) every selector spec of the grammar {matcher, explore-all, explore-fields(1,2 fields), explore-index, explore-range, explore-union(2), explore-recursive(limit none|1|100|101|2^31, with/without stop-at), recursive-edge, interpret-as} nested to the stated depth (binary kinds: one child of full depth, the other from a fixed 7-element set, both orders), kept iff go-ipld-prime's ParseSelector accepts it; validator verdict compared with the reference predicate; all well-formed specs of depth<=3 additionally sent to a real responder with default options and the wire status compared; a class is a distinct (bad, interpret-as, union, nested-recursion) combination",
		Assumptions: []string{"well-formed = accepted by go-ipld-prime v0.24.0 ParseSelector (explore-conditional is not parseable there)", "reference predicate: some explore-recursive has limit none or depth > 100"},
		Run:         runC08, QuickBudget: 240, ThoroughBudget: 1800,
		Replay: func(raw json.RawMessage) string {
			var cs c08Case
			if err := json.Unmarshal(raw, &cs); err != nil {
				return err.Error()
			}
			if cs.Index < 0 {
				for _, ch := range c08Chains(cs.Depth) {
					if ch.n == cs.Depth && ch.kind+"/"+ch.bottom == cs.Spec {
						sig, what, _ := c08Validate(ch.ast)
						if sig == "" {
							return "ok"
						}
						return sig + ": " + what[:min(len(what), 300)]
					}
				}
				return "chain not found"
			}
			all := c08Gen(cs.Depth, map[int][]*selAST{})
			if cs.Index >= len(all) {
				return "index out of range"
			}
			a := all[cs.Index]
			var sig, what string
			if cs.E2E {
				sig, what = c08EndToEnd(a, cs.Hook)
			} else {
				sig, what, _ = c08Validate(a)
			}
			if sig == "" {
				return "ok"
			}
			return sig + ": " + what
		}})
}
