package props

import (
	"encoding/json"
	"fmt"
	"github.com/ipfs/go-graphsync/dedupkey"

	"github.com/ipfs/go-cid"
	"github.com/ipfs/go-graphsync"
	"github.com/ipfs/go-graphsync/cidset"
	"github.com/ipfs/go-graphsync/donotsendfirstblocks"
	"github.com/ipfs/go-graphsync/zzverif/vsched"
	cidlink "github.com/ipld/go-ipld-prime/linking/cid"
	"github.com/libp2p/go-libp2p/core/peer"

	"verif/core"
	"verif/harness"
)

// C24: requestor avoids unnecessary traffic (DESIGN 6 C24).

type c24Case struct {
	Shape harness.Shape `json:"shape"`
	Sel   string        `json:"selector"`
	Local []int         `json:"requestor_has"`       // block indexes in the requestor's store
	UserK int64         `json:"user_skip"`           // user-supplied do-not-send-first-blocks (0: none)
	UserS []int         `json:"user_ignore"`         // user-supplied do-not-send-cids (block indexes)
	Key   bool          `json:"dedup_key,omitempty"` // the request also carries a dedup-by-key extension (as a requestor using a persistence option sends)
}

func c24Run(cs c24Case) (sig, what, class string) {
	d := harness.Build(cs.Shape, "")
	sel := findSel(cs.Sel)
	split := make(harness.Split, len(cs.Shape.Blocks))
	for i := range split {
		split[i] = 2
	}
	for _, i := range cs.Local {
		split[i] = 3
	}
	var exts []graphsync.ExtensionData
	if cs.UserK > 0 {
		exts = append(exts, graphsync.ExtensionData{Name: graphsync.ExtensionsDoNotSendFirstBlocks, Data: donotsendfirstblocks.EncodeDoNotSendFirstBlocks(cs.UserK)})
	}
	ignore := map[string]bool{}
	if len(cs.UserS) > 0 {
		set := cid.NewSet()
		for _, i := range cs.UserS {
			set.Add(d.Links[i].(cidlink.Link).Cid)
			ignore[d.Links[i].Binary()] = true
		}
		exts = append(exts, graphsync.ExtensionData{Name: graphsync.ExtensionDoNotSendCIDs, Data: cidset.EncodeCidSet(set)})
	}
	if cs.Key {
		kn, _ := dedupkey.EncodeDedupKey("c24")
		exts = append(exts, graphsync.ExtensionData{Name: graphsync.ExtensionDeDupByKey, Data: kn})
	}
	qs, rs := d.Stores(split)
	ref := harness.Reference(d.Root, sel.Node, harness.RefOpts{Local: qs, Remote: rs, RemoteNeedsPath: true})
	klocal := 0
	for klocal < len(ref.Loads) && ref.Loads[klocal].From == "local" {
		klocal++
	}
	complete := klocal == len(ref.Loads)
	obs, _ := runExchange(vsched.Config{Fast: true}, d, sel, split, nil, nil, exts...)
	class = fmt.Sprintf("complete=%v localPrefix=%d userK=%d userS=%d", complete, min(klocal, 3), cs.UserK, len(cs.UserS))
	detail := fmt.Sprintf("shape %s selector %s requestor has %v userSkip=%d userIgnore=%v dedupKey=%v", cs.Shape, cs.Sel, cs.Local, cs.UserK, cs.UserS, cs.Key)
	if obs.Panic != "" {
		return "panic", obs.Panic, class
	}
	var fromQ, fromR []*harness.Wire
	for _, w := range obs.Wire {
		if w.From == peer.ID("Q") {
			fromQ = append(fromQ, w)
		} else {
			fromR = append(fromR, w)
		}
	}
	if complete {
		if len(fromQ) > 0 {
			return "local-store-complete-but-message-sent", fmt.Sprintf("%s: requestor holds every needed block yet sent %d message(s)", detail, len(fromQ)), class
		}
		return "", "", class
	}
	// first New request
	var first *harness.Wire
	for _, w := range fromQ {
		for _, rq := range w.Msg.Requests() {
			if rq.Type() == graphsync.RequestTypeNew && first == nil {
				first = w
			}
		}
	}
	if first == nil {
		return "no-request-sent", detail + ": blocks are missing locally but no request left the requestor", class
	}
	wantSkip := int64(klocal)
	if cs.UserK > wantSkip {
		wantSkip = cs.UserK
	}
	var gotSkip int64
	has := false
	for _, rq := range first.Msg.Requests() {
		if data, ok := rq.Extension(graphsync.ExtensionsDoNotSendFirstBlocks); ok {
			has = true
			gotSkip, _ = donotsendfirstblocks.DecodeDoNotSendFirstBlocks(data)
		}
	}
	if wantSkip == 0 && has {
		return "skip-extension-present-for-zero", fmt.Sprintf("%s: skip extension sent with value %d although nothing was loaded locally", detail, gotSkip), class
	}
	if wantSkip > 0 && gotSkip != wantSkip {
		return "wrong-skip-count", fmt.Sprintf("%s: asked the responder to skip %d blocks, loaded %d locally before the first miss (user %d)", detail, gotSkip, klocal, cs.UserK), class
	}
	// responder's traversal order = full traversal (it holds everything)
	full := harness.Reference(d.Root, sel.Node, harness.RefOpts{Remote: rs})
	seen := map[string]int{}
	for _, w := range fromR {
		for _, b := range w.Msg.Blocks() {
			k := cidlink.Link{Cid: b.Cid()}.Binary()
			seen[k]++
			if seen[k] > 1 {
				return "block-transmitted-twice", fmt.Sprintf("%s: block %s sent %d times in one request", detail, d.Name(cidlink.Link{Cid: b.Cid()}), seen[k]), class
			}
			if ignore[k] {
				return "ignored-block-transmitted", fmt.Sprintf("%s: block %s is in do-not-send-cids but was transmitted", detail, d.Name(cidlink.Link{Cid: b.Cid()})), class
			}
			// every traversal position of this block must lie after the skipped prefix
			firstIdx := 0
			for i, l := range full.Loads {
				if l.Link.Binary() == k {
					firstIdx = i + 1
					break
				}
			}
			if firstIdx == 0 {
				return "block-outside-traversal-transmitted", fmt.Sprintf("%s: block %s is not part of the traversal", detail, d.Name(cidlink.Link{Cid: b.Cid()})), class
			}
			allSkipped := true
			for i, l := range full.Loads {
				if l.Link.Binary() == k && int64(i+1) > gotSkip {
					allSkipped = false
				}
			}
			if allSkipped {
				return "skipped-block-transmitted", fmt.Sprintf("%s: block %s (traversal position %d) was transmitted although the first %d blocks were to be skipped", detail, d.Name(cidlink.Link{Cid: b.Cid()}), firstIdx, gotSkip), class
			}
		}
	}
	return "", "", class
}

func runC24(c *core.Ctx) {
	shapes := c02Shapes(c.Thorough())
	sels := []string{"all-d10", "all-d2", "field-e0-then-all"}
	if c.Thorough() {
		sels = append(sels, "union-e0-e1", "all-d1")
	}
	var idx int64
	for _, sh := range shapes {
		n := len(sh.Blocks)
		for _, sn := range sels {
			for mask := 0; mask < 1<<n; mask++ {
				var local []int
				for i := 0; i < n; i++ {
					if mask&(1<<i) != 0 {
						local = append(local, i)
					}
				}
				variants := []c24Case{{Shape: sh, Sel: sn, Local: local}}
				for k := int64(1); k <= int64(n); k++ {
					variants = append(variants, c24Case{Shape: sh, Sel: sn, Local: local, UserK: k})
				}
				for i := 0; i < n; i++ {
					variants = append(variants, c24Case{Shape: sh, Sel: sn, Local: local, UserS: []int{i}})
				}
				if n >= 2 {
					variants = append(variants, c24Case{Shape: sh, Sel: sn, Local: local, UserS: []int{0, n - 1}, UserK: 1})
				}
				for _, v := range variants[1:] {
					v.Key = true
					variants = append(variants, v)
				}
				for _, cs := range variants {
					idx++
					if !c.Mine(idx) {
						continue
					}
					if c.Expired() {
						c.Res.Exhaustive = false
						return
					}
					sig, what, class := c24Run(cs)
					c.Res.Evaluations++
					c.Class(class)
					if idx%4999 == 0 {
						c.Sample(cs)
					}
					if sig != "" {
						c.Violate(sig, what, cs)
					}
				}
			}
		}
	}
}

func init() {
	core.Register(&core.Prop{ID: "C24", Level: "exploration",
		Rule:        "shape catalogue x selectors x every subset of blocks in the requestor's store (responder holds everything) x user-supplied {none, do-not-send-first-blocks k=1..N, do-not-send-cids {i}, both} (each of the latter with and without a dedup-by-key extension); one real two-node exchange each with a wire monitor; a class is a distinct (local-complete, local prefix length, user k, |user S|) combination",
		Assumptions: []string{"reference traversal gives the number of blocks loaded locally before the first miss and the responder's traversal positions", "default schedule"},
		Run:         runC24, QuickBudget: 300, ThoroughBudget: 2400,
		Replay: func(raw json.RawMessage) string {
			var cs c24Case
			if err := json.Unmarshal(raw, &cs); err != nil {
				return err.Error()
			}
			sig, what, _ := c24Run(cs)
			if sig == "" {
				return "ok"
			}
			return sig + ": " + what
		}})
}
