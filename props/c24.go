package props

import (
	"context"
	"encoding/json"
	"fmt"
	"github.com/ipfs/go-graphsync/dedupkey"
	"os"

	"github.com/ipfs/go-cid"
	"github.com/ipfs/go-graphsync"
	"github.com/ipfs/go-graphsync/cidset"
	"github.com/ipfs/go-graphsync/donotsendfirstblocks"
	"github.com/ipfs/go-graphsync/zzverif/vsched"
	cidlink "github.com/ipld/go-ipld-prime/linking/cid"
	"github.com/libp2p/go-libp2p/core/peer"

	"verif/core"
	"verif/harness"
)

// C24: requestor avoids unnecessary traffic (DESIGN 6 C24).

type c24Case struct {
	Shape   harness.Shape `json:"shape"`
	Sel     string        `json:"selector"`
	Local   []int         `json:"requestor_has"`                       // block indexes in the requestor's store
	UserK   int64         `json:"user_skip"`                           // user-supplied do-not-send-first-blocks (0: none)
	UserS   []int         `json:"user_ignore"`                         // user-supplied do-not-send-cids (block indexes)
	Key     bool          `json:"dedup_key,omitempty"`                 // the request also carries a dedup-by-key extension (as a requestor using a persistence option sends)
	PauseAt int           `json:"requestor_pauses_at_block,omitempty"` // the requestor's block hook pauses at this block; after quiescence the request is resumed (re-issued with a skip count)
}

// c24Resume: the responder holds everything, the requestor nothing; the request is paused by the requestor at
// block k and resumed once everything is quiet. The re-issued request asks to skip the blocks already loaded:
// none of them may be transmitted again.
func c24Resume(cs c24Case) (sig, what, class string) {
	d := harness.Build(cs.Shape, "")
	sel := findSel(cs.Sel)
	split := make(harness.Split, len(cs.Shape.Blocks))
	for i := range split {
		split[i] = 2
	}
	_, rsRef := d.Stores(split)
	ref := harness.Reference(d.Root, sel.Node, harness.RefOpts{Remote: rsRef})
	class = fmt.Sprintf("resume pauseAt=%d", cs.PauseAt)
	var wire []*harness.Wire
	var panicked string
	paused := false
	s := vsched.Run(vsched.Config{Fast: true}, func() {
		f := harness.NewFixture(true) // gated: messages are delivered one at a time, each followed by quiescence
		qs, rs := d.Stores(split)
		q := f.AddNode(peer.ID("Q"), qs)
		r := f.AddNode(peer.ID("R"), rs)
		n := 0
		q.GS.RegisterIncomingBlockHook(func(p peer.ID, rd graphsync.ResponseData, b graphsync.BlockData, ha graphsync.IncomingBlockHookActions) {
			n++
			if n == cs.PauseAt && !paused {
				paused = true
				ha.PauseRequest()
			}
		})
		id := harness.MkID(1)
		q.Request(f, r.ID, d.Root, sel.Node, id)
		vsched.Quiesce()
		harness.RunEvents(f.Deliveries(q.ID, r.ID), 400)
		if paused {
			// everything of the cancelled response has been delivered (and refused): nothing is in flight
			_ = q.GS.Unpause(context.Background(), id)
			vsched.Quiesce()
			harness.RunEvents(f.Deliveries(q.ID, r.ID), 400)
		}
		wire = f.Net.Wire
		f.Cancel()
	})
	if s.Panic != nil {
		panicked = fmt.Sprint(s.Panic)
	}
	detail := fmt.Sprintf("shape %s selector %s, requestor pauses at block %d and resumes: ", cs.Shape, cs.Sel, cs.PauseAt)
	if panicked != "" {
		return "panic", detail + panicked, class
	}
	if !paused {
		return "", "", class
	}
	// the second New request and its skip count
	news, skip, after := 0, int64(-1), -1
	for i, w := range wire {
		if w.From != peer.ID("Q") {
			continue
		}
		for _, rq := range w.Msg.Requests() {
			if rq.Type() == graphsync.RequestTypeNew {
				news++
				if news == 2 {
					after = i
					skip = 0
					if data, ok := rq.Extension(graphsync.ExtensionsDoNotSendFirstBlocks); ok {
						skip, _ = donotsendfirstblocks.DecodeDoNotSendFirstBlocks(data)
					}
				}
			}
		}
	}
	if os.Getenv("VERIF_VERBOSE") != "" {
		for i, w := range wire {
			var rq []string
			for _, r := range w.Msg.Requests() {
				rq = append(rq, string(r.Type()))
			}
			fmt.Printf("wire %d from %s requests %v responses %d blocks %d\n", i, w.From, rq, len(w.Msg.Responses()), len(w.Msg.Blocks()))
		}
		fmt.Println("news", news, "skip", skip, "after", after, "paused", paused)
	}
	if after < 0 {
		return "", "", class // the request had finished before the pause took effect
	}
	// after the resume the traversal goes on locally through links whose block was stored before the pause
	// (duplicates) and goes remote at the first link it cannot load: that many leading links are skipped
	have := map[string]bool{}
	for i := 0; i < cs.PauseAt && i < len(ref.Loads); i++ {
		have[ref.Loads[i].Link.Binary()] = true
	}
	want := cs.PauseAt
	for want < len(ref.Loads) && have[ref.Loads[want].Link.Binary()] {
		want++
	}
	if skip != int64(want) {
		return "wrong-skip-count/after-resume", fmt.Sprintf("%sthe re-issued request asks to skip %d blocks, %d links were loaded locally before it went remote again", detail, skip, want), class
	}
	// blocks all of whose occurrences lie inside the first `skip` links of the traversal
	first := map[string]int{}
	for i, l := range ref.Loads {
		if _, ok := first[l.Link.Binary()]; !ok {
			first[l.Link.Binary()] = i
		}
	}
	for _, w := range wire[after:] {
		if w.From != peer.ID("R") {
			continue
		}
		for _, b := range w.Msg.Blocks() {
			k := cidlink.Link{Cid: b.Cid()}.Binary()
			if i, ok := first[k]; ok && int64(i) < skip {
				return "skipped-block-transmitted/after-resume", fmt.Sprintf("%sblock %s (traversal position %d) was transmitted again although the re-issued request asked to skip the first %d blocks", detail, d.Name(cidlink.Link{Cid: b.Cid()}), i, skip), class
			}
		}
	}
	return "", "", class
}

func c24Run(cs c24Case) (sig, what, class string) {
	if cs.PauseAt > 0 {
		return c24Resume(cs)
	}
	d := harness.Build(cs.Shape, "")
	sel := findSel(cs.Sel)
	split := make(harness.Split, len(cs.Shape.Blocks))
	for i := range split {
		split[i] = 2
	}
	for _, i := range cs.Local {
		split[i] = 3
	}
	var exts []graphsync.ExtensionData
	if cs.UserK > 0 {
		exts = append(exts, graphsync.ExtensionData{Name: graphsync.ExtensionsDoNotSendFirstBlocks, Data: donotsendfirstblocks.EncodeDoNotSendFirstBlocks(cs.UserK)})
	}
	ignore := map[string]bool{}
	if len(cs.UserS) > 0 {
		set := cid.NewSet()
		for _, i := range cs.UserS {
			set.Add(d.Links[i].(cidlink.Link).Cid)
			ignore[d.Links[i].Binary()] = true
		}
		exts = append(exts, graphsync.ExtensionData{Name: graphsync.ExtensionDoNotSendCIDs, Data: cidset.EncodeCidSet(set)})
	}
	if cs.Key {
		kn, _ := dedupkey.EncodeDedupKey("c24")
		exts = append(exts, graphsync.ExtensionData{Name: graphsync.ExtensionDeDupByKey, Data: kn})
	}
	qs, rs := d.Stores(split)
	ref := harness.Reference(d.Root, sel.Node, harness.RefOpts{Local: qs, Remote: rs, RemoteNeedsPath: true})
	klocal := 0
	for klocal < len(ref.Loads) && ref.Loads[klocal].From == "local" {
		klocal++
	}
	complete := klocal == len(ref.Loads)
	obs, _ := runExchange(vsched.Config{Fast: true}, d, sel, split, nil, nil, exts...)
	class = fmt.Sprintf("complete=%v localPrefix=%d userK=%d userS=%d", complete, min(klocal, 3), cs.UserK, len(cs.UserS))
	detail := fmt.Sprintf("shape %s selector %s requestor has %v userSkip=%d userIgnore=%v dedupKey=%v", cs.Shape, cs.Sel, cs.Local, cs.UserK, cs.UserS, cs.Key)
	if obs.Panic != "" {
		return "panic", obs.Panic, class
	}
	var fromQ, fromR []*harness.Wire
	for _, w := range obs.Wire {
		if w.From == peer.ID("Q") {
			fromQ = append(fromQ, w)
		} else {
			fromR = append(fromR, w)
		}
	}
	if complete {
		if len(fromQ) > 0 {
			return "local-store-complete-but-message-sent", fmt.Sprintf("%s: requestor holds every needed block yet sent %d message(s)", detail, len(fromQ)), class
		}
		return "", "", class
	}
	// first New request
	var first *harness.Wire
	for _, w := range fromQ {
		for _, rq := range w.Msg.Requests() {
			if rq.Type() == graphsync.RequestTypeNew && first == nil {
				first = w
			}
		}
	}
	if first == nil {
		return "no-request-sent", detail + ": blocks are missing locally but no request left the requestor", class
	}
	wantSkip := int64(klocal)
	if cs.UserK > wantSkip {
		wantSkip = cs.UserK
	}
	var gotSkip int64
	has := false
	for _, rq := range first.Msg.Requests() {
		if data, ok := rq.Extension(graphsync.ExtensionsDoNotSendFirstBlocks); ok {
			has = true
			gotSkip, _ = donotsendfirstblocks.DecodeDoNotSendFirstBlocks(data)
		}
	}
	if wantSkip == 0 && has {
		return "skip-extension-present-for-zero", fmt.Sprintf("%s: skip extension sent with value %d although nothing was loaded locally", detail, gotSkip), class
	}
	if wantSkip > 0 && gotSkip != wantSkip {
		return "wrong-skip-count", fmt.Sprintf("%s: asked the responder to skip %d blocks, loaded %d locally before the first miss (user %d)", detail, gotSkip, klocal, cs.UserK), class
	}
	// responder's traversal order = full traversal (it holds everything)
	full := harness.Reference(d.Root, sel.Node, harness.RefOpts{Remote: rs})
	seen := map[string]int{}
	for _, w := range fromR {
		for _, b := range w.Msg.Blocks() {
			k := cidlink.Link{Cid: b.Cid()}.Binary()
			seen[k]++
			if seen[k] > 1 {
				return "block-transmitted-twice", fmt.Sprintf("%s: block %s sent %d times in one request", detail, d.Name(cidlink.Link{Cid: b.Cid()}), seen[k]), class
			}
			if ignore[k] {
				return "ignored-block-transmitted", fmt.Sprintf("%s: block %s is in do-not-send-cids but was transmitted", detail, d.Name(cidlink.Link{Cid: b.Cid()})), class
			}
			// every traversal position of this block must lie after the skipped prefix
			firstIdx := 0
			for i, l := range full.Loads {
				if l.Link.Binary() == k {
					firstIdx = i + 1
					break
				}
			}
			if firstIdx == 0 {
				return "block-outside-traversal-transmitted", fmt.Sprintf("%s: block %s is not part of the traversal", detail, d.Name(cidlink.Link{Cid: b.Cid()})), class
			}
			allSkipped := true
			for i, l := range full.Loads {
				if l.Link.Binary() == k && int64(i+1) > gotSkip {
					allSkipped = false
				}
			}
			if allSkipped {
				return "skipped-block-transmitted", fmt.Sprintf("%s: block %s (traversal position %d) was transmitted although the first %d blocks were to be skipped", detail, d.Name(cidlink.Link{Cid: b.Cid()}), firstIdx, gotSkip), class
			}
		}
	}
	return "", "", class
}

func runC24(c *core.Ctx) {
	shapes := c02Shapes(c.Thorough())
	sels := []string{"all-d10", "all-d2", "field-e0-then-all"}
	if c.Thorough() {
		sels = append(sels, "union-e0-e1", "all-d1")
	}
	var idx int64
	for _, sh := range shapes {
		n := len(sh.Blocks)
		for _, sn := range sels {
			for mask := 0; mask < 1<<n; mask++ {
				var local []int
				for i := 0; i < n; i++ {
					if mask&(1<<i) != 0 {
						local = append(local, i)
					}
				}
				variants := []c24Case{{Shape: sh, Sel: sn, Local: local}}
				for k := int64(1); k <= int64(n); k++ {
					variants = append(variants, c24Case{Shape: sh, Sel: sn, Local: local, UserK: k})
				}
				for i := 0; i < n; i++ {
					variants = append(variants, c24Case{Shape: sh, Sel: sn, Local: local, UserS: []int{i}})
				}
				if n >= 2 {
					variants = append(variants, c24Case{Shape: sh, Sel: sn, Local: local, UserS: []int{0, n - 1}, UserK: 1})
				}
				for _, v := range variants[1:] {
					v.Key = true
					variants = append(variants, v)
				}
				if mask == 0 {
					for k := 1; k < n; k++ {
						variants = append(variants, c24Case{Shape: sh, Sel: sn, PauseAt: k})
					}
				}
				for _, cs := range variants {
					idx++
					if !c.Mine(idx) {
						continue
					}
					if c.Expired() {
						c.Res.Exhaustive = false
						return
					}
					sig, what, class := c24Run(cs)
					c.Res.Evaluations++
					c.Class(class)
					if idx%4999 == 0 {
						c.Sample(cs)
					}
					if sig != "" {
						c.Violate(sig, what, cs)
					}
				}
			}
		}
	}
}

func init() {
	core.Register(&core.Prop{ID: "C24", Level: "exploration",
		Rule:        "shape catalogue x selectors x every subset of blocks in the requestor's store (responder holds everything) x user-supplied {none, do-not-send-first-blocks k=1..N, do-not-send-cids {i}, both} (each of the latter with and without a dedup-by-key extension); plus, with an empty requestor store, the request paused by the requestor at block k and resumed at quiescence (the re-issued request's skip count and what is transmitted after it); one real two-node exchange each with a wire monitor; a class is a distinct (local-complete, local prefix length, user k, |user S|) combination",
		Assumptions: []string{"reference traversal gives the number of blocks loaded locally before the first miss and the responder's traversal positions", "default schedule"},
		Run:         runC24, QuickBudget: 300, ThoroughBudget: 2400,
		Replay: func(raw json.RawMessage) string {
			var cs c24Case
			if err := json.Unmarshal(raw, &cs); err != nil {
				return err.Error()
			}
			sig, what, _ := c24Run(cs)
			if sig == "" {
				return "ok"
			}
			return sig + ": " + what
		}})
}
