package props

import (
	"encoding/json"
	"fmt"
	"strings"

	"github.com/ipfs/go-cid"
	"github.com/ipfs/go-graphsync"
	"github.com/ipfs/go-graphsync/cidset"
	"github.com/ipfs/go-graphsync/dedupkey"
	"github.com/ipfs/go-graphsync/donotsendfirstblocks"
	gsmsg "github.com/ipfs/go-graphsync/message"
	"github.com/ipfs/go-graphsync/zzverif/vsched"
	cidlink "github.com/ipld/go-ipld-prime/linking/cid"
	"github.com/ipld/go-ipld-prime/node/basicnode"
	"github.com/libp2p/go-libp2p/core/peer"

	"verif/core"
	"verif/harness"
)

// C03: responder output mirrors its own selector traversal (DESIGN 6 C03).
// Real responder, scripted requestor reading the wire.

type c03Case struct {
	Shape  harness.Shape `json:"shape"`
	Sel    string        `json:"selector"`
	Has    []int         `json:"responder_has"`
	Ignore []int         `json:"do_not_send_cids,omitempty"`
	Skip   int64         `json:"do_not_send_first_blocks,omitempty"`
	Key    string        `json:"dedup_key,omitempty"`
	BadExt string        `json:"malformed_extension,omitempty"`
	Second bool          `json:"second_request_after,omitempty"` // a plain request for the same DAG after the first has finished
	End    string        `json:"first_request_ends,omitempty"`   // "": runs to completion | "cancelled-before-start": the responder's request hook pauses it, the requestor cancels it, then the follow-up comes
}

type c03Out struct {
	md      []gsmsg.GraphSyncLinkMetadatum
	perMsg  [][2][]string // per message: [metadata present links, block links]
	status  []graphsync.ResponseStatusCode
	nblocks int
	panic   string
}

func c03Exchange(cs c03Case) (first, second *c03Out, d *harness.DAG) {
	d = harness.Build(cs.Shape, "")
	sel := findSel(cs.Sel)
	split := make(harness.Split, len(cs.Shape.Blocks))
	for _, i := range cs.Has {
		split[i] = 2
	}
	var exts []graphsync.ExtensionData
	if cs.Key != "" {
		n, _ := dedupkey.EncodeDedupKey(cs.Key)
		exts = append(exts, graphsync.ExtensionData{Name: graphsync.ExtensionDeDupByKey, Data: n})
	}
	if len(cs.Ignore) > 0 {
		set := cid.NewSet()
		for _, i := range cs.Ignore {
			set.Add(d.Links[i].(cidlink.Link).Cid)
		}
		exts = append(exts, graphsync.ExtensionData{Name: graphsync.ExtensionDoNotSendCIDs, Data: cidset.EncodeCidSet(set)})
	}
	if cs.Skip > 0 {
		exts = append(exts, graphsync.ExtensionData{Name: graphsync.ExtensionsDoNotSendFirstBlocks, Data: donotsendfirstblocks.EncodeDoNotSendFirstBlocks(cs.Skip)})
	}
	switch cs.BadExt {
	case "cids-not-a-list":
		exts = append(exts, graphsync.ExtensionData{Name: graphsync.ExtensionDoNotSendCIDs, Data: basicnode.NewInt(7)})
	case "cids-list-of-ints":
		exts = append(exts, graphsync.ExtensionData{Name: graphsync.ExtensionDoNotSendCIDs, Data: (&selAST{K: "|", Kids: nil}).node()})
	case "first-blocks-string":
		exts = append(exts, graphsync.ExtensionData{Name: graphsync.ExtensionsDoNotSendFirstBlocks, Data: basicnode.NewString("x")})
	case "dedup-key-int":
		exts = append(exts, graphsync.ExtensionData{Name: graphsync.ExtensionDeDupByKey, Data: basicnode.NewInt(3)})
	case "first-blocks-null":
		exts = append(exts, graphsync.ExtensionData{Name: graphsync.ExtensionsDoNotSendFirstBlocks, Data: nil})
	}
	collect := func(q *harness.NetNode, id graphsync.RequestID, from int) *c03Out {
		o := &c03Out{}
		for _, w := range q.Inbox[from:] {
			var present, blks []string
			for _, r := range w.Msg.Responses() {
				if r.RequestID() != id {
					continue
				}
				o.status = append(o.status, r.Status())
				if md, ok := r.Metadata().(gsmsg.GraphSyncLinkMetadata); ok {
					for _, e := range md.RawMetadata() {
						o.md = append(o.md, e)
						if e.Action == graphsync.LinkActionPresent {
							present = append(present, cidlink.Link{Cid: e.Link}.Binary())
						}
					}
				}
			}
			for _, b := range w.Msg.Blocks() {
				blks = append(blks, cidlink.Link{Cid: b.Cid()}.Binary())
				o.nblocks++
			}
			o.perMsg = append(o.perMsg, [2][]string{present, blks})
		}
		return o
	}
	first, second = &c03Out{}, nil
	s := vsched.Run(vsched.Config{Fast: true}, func() {
		f := harness.NewFixture(false)
		_, rs := d.Stores(split)
		r := f.AddNode(peer.ID("R"), rs)
		q := f.AddScript(peer.ID("Q"))
		id := harness.MkID(1)
		if cs.End == "cancelled-before-start" {
			r.GS.RegisterIncomingRequestHook(func(p peer.ID, rd graphsync.RequestData, ha graphsync.IncomingRequestHookActions) {
				if rd.ID() == id {
					ha.PauseResponse()
				}
			})
		}
		if cs.End == "cancelled-after-first-block" {
			nb := 0
			r.GS.RegisterOutgoingBlockHook(func(p peer.ID, rd graphsync.RequestData, b graphsync.BlockData, ha graphsync.OutgoingBlockHookActions) {
				if rd.ID() == id {
					nb++
					if nb == 1 {
						ha.PauseResponse()
					}
				}
			})
		}
		q.Say(r.ID, harness.ReqMsg(gsmsg.NewRequest(id, d.Root.(cidlink.Link).Cid, sel.Node, 1, exts...)))
		vsched.Quiesce()
		if cs.End != "" {
			q.Say(r.ID, harness.ReqMsg(gsmsg.NewCancelRequest(id)))
			vsched.Quiesce()
		}
		first = collect(q, id, 0)
		if cs.Second {
			n0 := len(q.Inbox)
			id2 := harness.MkID(2)
			q.Say(r.ID, harness.ReqMsg(gsmsg.NewRequest(id2, d.Root.(cidlink.Link).Cid, sel.Node, 1)))
			vsched.Quiesce()
			second = collect(q, id2, n0)
		}
		f.Cancel()
	})
	if s.Panic != nil {
		first.panic = fmt.Sprint(s.Panic)
	}
	return
}

// c03Judge compares one request's wire output with the reference traversal
// over the responder's store.
func c03Judge(d *harness.DAG, ref *harness.RefResult, o *c03Out, ignore map[string]bool, skip int64, which string) (sig, what string) {
	name := func(b string) string {
		if i, ok := d.Index[b]; ok {
			return fmt.Sprintf("b%d", i)
		}
		return "?"
	}
	// terminal status: exactly one, last
	nterm := 0
	for _, st := range o.status {
		if st.IsTerminal() {
			nterm++
		}
	}
	if nterm != 1 || !o.status[len(o.status)-1].IsTerminal() {
		return "not-exactly-one-terminal-status" + which, fmt.Sprintf("statuses on the wire: %v", o.status)
	}
	final := o.status[len(o.status)-1]
	// metadata = reference link events in order
	var want []string
	for _, e := range ref.Loads {
		a := "m"
		if e.Present {
			a = "p"
		}
		want = append(want, name(e.Link.Binary())+a)
	}
	var got []string
	for _, e := range o.md {
		a := "?"
		switch e.Action {
		case graphsync.LinkActionPresent:
			a = "p"
		case graphsync.LinkActionMissing:
			a = "m"
		default:
			a = string(e.Action)
		}
		got = append(got, name(cidlink.Link{Cid: e.Link}.Binary())+a)
	}
	if strings.Join(got, " ") != strings.Join(want, " ") {
		return "metadata-differs-from-traversal" + which, fmt.Sprintf("link metadata [%s], responder's traversal is [%s]", strings.Join(got, " "), strings.Join(want, " "))
	}
	// final status
	wantStatus := graphsync.RequestCompletedFull
	if ref.RootMiss {
		wantStatus = graphsync.RequestFailedContentNotFound
	} else if len(ref.Missing) > 0 {
		wantStatus = graphsync.RequestCompletedPartial
	}
	if final != wantStatus {
		return "wrong-final-status" + which, fmt.Sprintf("final status %s, expected %s (%d links missing, root missing %v)", final, wantStatus, len(ref.Missing), ref.RootMiss)
	}
	// blocks: which traversal positions must carry data
	seen := map[string]bool{}
	expect := map[string]bool{}
	for i, e := range ref.Loads {
		k := e.Link.Binary()
		if e.Present && int64(i+1) > skip && !ignore[k] && !seen[k] {
			expect[k] = true
		}
		if e.Present {
			seen[k] = true // a block whose earlier occurrence was skipped or sent is not sent again (DESIGN 7)
		}
	}
	sent := map[string]int{}
	for _, pm := range o.perMsg {
		inMD := map[string]bool{}
		for _, p := range pm[0] {
			inMD[p] = true
		}
		for _, b := range pm[1] {
			sent[b]++
			if !inMD[b] {
				return "block-not-in-the-message-of-its-metadata" + which, fmt.Sprintf("block %s travels in a message whose metadata does not list it present", name(b))
			}
		}
	}
	for k, n := range sent {
		if n > 1 {
			return "block-transmitted-twice" + which, fmt.Sprintf("block %s sent %d times", name(k), n)
		}
		if !expect[k] {
			why := "not part of the traversal"
			if ignore[k] {
				why = "listed in do-not-send-cids"
			} else if seen[k] {
				why = fmt.Sprintf("inside the first %d blocks", skip)
			}
			kind := "excluded-block-transmitted"
			if ignore[k] {
				kind = "ignored-block-transmitted"
			}
			return kind + which, fmt.Sprintf("block %s was transmitted although it is %s", name(k), why)
		}
	}
	for k := range expect {
		if sent[k] == 0 {
			return "block-data-missing" + which, fmt.Sprintf("block %s is present, not excluded and not sent before, but no data accompanied it", name(k))
		}
	}
	return "", ""
}

func c03Run(cs c03Case) (sig, what, class string) {
	first, second, d := c03Exchange(cs)
	sel := findSel(cs.Sel)
	split := make(harness.Split, len(cs.Shape.Blocks))
	for _, i := range cs.Has {
		split[i] = 2
	}
	_, rs := d.Stores(split)
	ref := harness.Reference(d.Root, sel.Node, harness.RefOpts{Remote: rs})
	class = fmt.Sprintf("links=%d missing=%d rootmiss=%v ign=%d skip=%d key=%v bad=%v", min(len(ref.Loads), 4), min(len(ref.Missing), 2), ref.RootMiss, len(cs.Ignore), min(int(cs.Skip), 3), cs.Key != "", cs.BadExt != "")
	detail := fmt.Sprintf("shape %s selector %s responder has %v ignore %v skip %d key %q bad-ext %q: ", cs.Shape, cs.Sel, cs.Has, cs.Ignore, cs.Skip, cs.Key, cs.BadExt)
	if first.panic != "" {
		return "panic", detail + first.panic, class
	}
	if len(first.status) == 0 {
		return "no-response", detail + "the responder sent nothing for the request", class
	}
	if cs.BadExt != "" {
		nterm := 0
		for _, st := range first.status {
			if st.IsTerminal() {
				nterm++
			}
		}
		last := first.status[len(first.status)-1]
		if nterm != 1 || last != graphsync.RequestFailedUnknown {
			return "malformed-extension-not-failed-once", detail + fmt.Sprintf("statuses %v, expected exactly one terminal failed-unknown", first.status), class
		}
		if first.nblocks > 0 {
			return "malformed-extension-but-blocks-sent", detail + fmt.Sprintf("%d blocks sent", first.nblocks), class
		}
		return "", "", class
	}
	ignore := map[string]bool{}
	for _, i := range cs.Ignore {
		ignore[d.Links[i].Binary()] = true
	}
	if cs.End == "cancelled-before-start" {
		// the cancelled request itself sent nothing but statuses; what matters is that it left nothing behind
		if first.nblocks > 0 {
			return "blocks-sent-for-a-request-cancelled-before-it-started", detail + fmt.Sprintf("%d blocks", first.nblocks), class
		}
	} else if cs.End == "cancelled-after-first-block" {
		// (only what it leaves behind is judged)
	} else if sig, what = c03Judge(d, ref, first, ignore, cs.Skip, ""); sig != "" {
		return sig, detail + what, class
	}
	if second != nil {
		if len(second.status) == 0 {
			return "no-response/follow-up-request", detail + "no response to the follow-up request", class
		}
		if sig, what = c03Judge(d, ref, second, map[string]bool{}, 0, "/follow-up-request"); sig != "" {
			how := "finished"
			if cs.End == "cancelled-before-start" {
				how = "was cancelled before it started (paused by the request hook)"
			} else if cs.End != "" {
				how = "was cancelled while paused after its first block"
			}
			return sig, detail + "plain follow-up request after the first " + how + ": " + what, class
		}
	}
	return "", "", class
}

func runC03(c *core.Ctx) {
	shapes := harness.Shapes(3, 2, true, true, true)
	sels := []string{"all-d10", "all-d2", "field-e0-then-all", "matcher"}
	if c.Thorough() {
		shapes = harness.Shapes(4, 2, true, true, true)
		sels = append(sels, "union-e0-e1", "all-d1")
	} else {
		for _, s := range harness.Shapes(4, 1, false, false, false) {
			if len(s.Blocks) == 4 {
				shapes = append(shapes, s)
			}
		}
	}
	// one shape whose output spans several messages (512KiB batching)
	big := harness.Shape{Name: "big3", Blocks: []harness.BlockSpec{{Pad: 70000, Edges: []harness.Edge{{To: 1}, {To: 2, Form: harness.Inline}}}, {Pad: 70000}, {Pad: 70000}}}
	shapes = append(shapes, big)
	var idx int64
	for _, sh := range shapes {
		n := len(sh.Blocks)
		isBig := sh.Name == "big3"
		for _, sn := range sels {
			if isBig && sn != "all-d10" {
				continue
			}
			for mask := 0; mask < 1<<n; mask++ {
				var has []int
				for i := 0; i < n; i++ {
					if mask&(1<<i) != 0 {
						has = append(has, i)
					}
				}
				if n == 4 && !c.Thorough() && mask != 15 && mask != 7 && mask != 13 && mask != 11 && mask != 14 {
					continue
				}
				var variants []c03Case
				base := c03Case{Shape: sh, Sel: sn, Has: has}
				// do-not-send-cids subsets x skip x key
				for ign := 0; ign < 1<<n; ign++ {
					if n >= 3 && !c.Thorough() && ign != 0 && ign&(ign-1) != 0 && ign != (1<<n)-1 && ign != 3 {
						continue // quick: singletons, {0,1} and all
					}
					var ig []int
					for i := 0; i < n; i++ {
						if ign&(1<<i) != 0 {
							ig = append(ig, i)
						}
					}
					for k := int64(0); k <= int64(n)+1; k++ {
						if ign != 0 && k > 2 && !c.Thorough() {
							continue
						}
						for _, key := range []string{"", "k"} {
							v := base
							v.Ignore, v.Skip, v.Key = ig, k, key
							// a plain follow-up request shows stale tracking state
							v.Second = key != "" || (ign == 1 && k == 0)
							variants = append(variants, v)
							if (ign != 0 || k > 0 || key != "") && (c.Thorough() || (k <= 1 && (ign == 0 || ign == 1 || ign == (1<<n)-1))) {
								w := v
								w.Second, w.End = true, "cancelled-before-start"
								variants = append(variants, w)
							}
							if c.Thorough() || (ign == 0 && k <= 1) {
								w := v
								w.Second, w.End = true, "cancelled-after-first-block"
								variants = append(variants, w)
							}
						}
					}
				}
				if mask == (1<<n)-1 {
					for _, bad := range []string{"cids-not-a-list", "cids-list-of-ints", "first-blocks-string", "dedup-key-int", "first-blocks-null"} {
						v := base
						v.BadExt = bad
						variants = append(variants, v)
					}
				}
				for _, cs := range variants {
					idx++
					if !c.Mine(idx) {
						continue
					}
					if c.Expired() {
						c.Res.Exhaustive = false
						return
					}
					sig, what, class := c03Run(cs)
					c.Res.Evaluations++
					c.Class(class)
					if isBig {
						c.Count("multi_message_cases", 1)
					}
					if idx%7919 == 0 {
						c.Sample(cs)
					}
					if sig != "" {
						if len(what) > 900 {
							what = what[:900] + "…"
						}
						c.Violate(sig, what, cs)
					}
				}
			}
		}
	}
}

func init() {
	core.Register(&core.Prop{ID: "C03", Level: "exploration",
		Rule:        "shape catalogue (N<=3 all, N=4 one form variant; thorough N<=4) + one 3-block shape of ~200KiB blocks (output spans several messages) x selectors x subsets of blocks in the responder's store x do-not-send-cids subsets x do-not-send-first-blocks 0..N+1 x dedup key {none,k} (+ a plain follow-up request after keyed requests, and after a first request that was paused - by the request hook before it started, or by the block hook after its first block - and then cancelled) x 5 malformed extension payloads; a scripted requestor sends the request to a real responder and reads the wire; a class is a distinct (links, missing, root-miss, |ignore|, skip, keyed, malformed) combination",
		Assumptions: []string{"reference: go-ipld-prime's walker over the responder's store gives the ordered (link, present/missing) list", "first blocks are counted per link traversal, present or missing (DESIGN 7); a block whose earlier occurrence in the request was skipped or sent is not sent again", "default schedule"},
		Run:         runC03, QuickBudget: 300, ThoroughBudget: 2400,
		Replay: func(raw json.RawMessage) string {
			var cs c03Case
			if err := json.Unmarshal(raw, &cs); err != nil {
				return err.Error()
			}
			sig, what, _ := c03Run(cs)
			if sig == "" {
				return "ok"
			}
			return sig + ": " + what
		}})
}
