package props

import (
	"context"
	"encoding/json"
	"fmt"
	"sort"
	"strings"

	"github.com/ipfs/go-graphsync"
	gsmsg "github.com/ipfs/go-graphsync/message"
	"github.com/ipfs/go-graphsync/messagequeue"
	"github.com/ipfs/go-graphsync/responsemanager/responseassembler"
	"github.com/ipld/go-ipld-prime"
	"github.com/libp2p/go-libp2p/core/peer"

	"verif/core"
	"verif/harness"
)

// C19: responder sends each block at most once per peer while it is in use
// (DESIGN 6 C19). Real responseassembler (public API) over a capturing
// PeerMessageHandler; explicit-state BFS over op histories, canonical key =
// reflect dump of the real peer link tracker; reference model below.

type asmOp struct {
	K    string `json:"k"`              // start trav fin finerr clear
	R    int    `json:"r"`              // request number (1..)
	Key  string `json:"key,omitempty"`  // start: dedup key
	Ign  int    `json:"ign,omitempty"`  // start: bit mask of ignored links
	Skip int    `json:"skip,omitempty"` // start: do-not-send-first-blocks
	L    int    `json:"l,omitempty"`    // trav: link index
	Has  bool   `json:"has,omitempty"`  // trav: block present
}

func (o asmOp) String() string {
	switch o.K {
	case "start":
		return fmt.Sprintf("start(r%d key=%q ignore=%b skip=%d)", o.R, o.Key, o.Ign, o.Skip)
	case "trav":
		p := "missing"
		if o.Has {
			p = "present"
		}
		return fmt.Sprintf("trav(r%d,L%d,%s)", o.R, o.L, p)
	}
	return fmt.Sprintf("%s(r%d)", o.K, o.R)
}

func asmOpsString(h []asmOp) string {
	p := make([]string, len(h))
	for i, o := range h {
		p[i] = o.String()
	}
	return strings.Join(p, " ")
}

// ---- reference model
type asmReq struct {
	scope    string
	refs     []int // links counted in the scope (traversed present, or ignored)
	missing  bool
	skip     int
	count    int
	finished bool
}

type asmModel struct {
	reqs  map[int]*asmReq
	inUse map[string]map[int]int // scope -> link -> #unfinished requests using it
	obs   []string
}

func newAsmModel() *asmModel {
	return &asmModel{reqs: map[int]*asmReq{}, inUse: map[string]map[int]int{}}
}

func (m *asmModel) use(scope string, l int) {
	if m.inUse[scope] == nil {
		m.inUse[scope] = map[int]int{}
	}
	m.inUse[scope][l]++
}

func (m *asmModel) release(r *asmReq) {
	for _, l := range r.refs {
		m.inUse[r.scope][l]--
		if m.inUse[r.scope][l] <= 0 {
			delete(m.inUse[r.scope], l)
		}
	}
	r.refs = nil
	r.finished = true
}

func (m *asmModel) apply(o asmOp) {
	switch o.K {
	case "start":
		r := &asmReq{scope: o.Key, skip: o.Skip}
		m.reqs[o.R] = r
		for l := 0; l < 2; l++ {
			if o.Ign&(1<<l) != 0 {
				m.use(r.scope, l)
				r.refs = append(r.refs, l)
			}
		}
		m.obs = append(m.obs, "")
	case "trav":
		r := m.reqs[o.R]
		r.count++
		send := o.Has && r.count > r.skip && m.inUse[r.scope][o.L] == 0
		if o.Has {
			m.use(r.scope, o.L)
			r.refs = append(r.refs, o.L)
		} else {
			r.missing = true
		}
		m.obs = append(m.obs, fmt.Sprintf("send=%v present=%v", send, o.Has))
	case "fin":
		r := m.reqs[o.R]
		st := graphsync.RequestCompletedFull
		if r.missing {
			st = graphsync.RequestCompletedPartial
		}
		m.release(r)
		m.obs = append(m.obs, fmt.Sprintf("status=%d", st))
	case "finerr":
		m.release(m.reqs[o.R])
		m.obs = append(m.obs, fmt.Sprintf("status=%d", graphsync.RequestFailedUnknown))
	case "clear":
		m.release(m.reqs[o.R])
		m.obs = append(m.obs, "")
	}
}

func (m *asmModel) idle() bool {
	for _, r := range m.reqs {
		if !r.finished {
			return false
		}
	}
	return true
}

// ---- real assembler
type asmCapture struct {
	msgs []gsmsg.GraphSyncMessage
}

func (c *asmCapture) AllocateAndBuildMessage(p peer.ID, size uint64, fn func(*messagequeue.Builder)) {
	b := messagequeue.NewBuilder(context.Background(), messagequeue.Topic(len(c.msgs)))
	fn(b)
	m, err := b.Build()
	if err != nil {
		panic(err)
	}
	c.msgs = append(c.msgs, m)
}

type asmReal struct {
	ra      *responseassembler.ResponseAssembler
	cap     *asmCapture
	streams map[int]responseassembler.ResponseStream
	obs     []string
}

var asmPeer = peer.ID("Q")
var asmLinks []ipld.Link
var asmData [][]byte

func asmInit() {
	if asmLinks != nil {
		return
	}
	d := harness.Build(harness.Shape{Blocks: []harness.BlockSpec{{Edges: []harness.Edge{{To: 1}}}, {}}}, "c19")
	asmLinks = d.Links
	asmData = d.Data
}

func newAsmReal() *asmReal {
	asmInit()
	cp := &asmCapture{}
	return &asmReal{ra: responseassembler.New(context.Background(), cp), cap: cp, streams: map[int]responseassembler.ResponseStream{}}
}

func (r *asmReal) apply(o asmOp) {
	id := harness.MkID(byte(o.R))
	n0 := len(r.cap.msgs)
	last := func() (gsmsg.GraphSyncMessage, bool) {
		if len(r.cap.msgs) == n0+1 {
			return r.cap.msgs[n0], true
		}
		return gsmsg.GraphSyncMessage{}, false
	}
	switch o.K {
	case "start":
		st := r.ra.NewStream(context.Background(), asmPeer, id, nil)
		r.streams[o.R] = st
		// same order as responsemanager.prepareQuery: dedup key, ignore list, skip count
		if o.Key != "" {
			st.DedupKey(o.Key)
		}
		if o.Ign != 0 {
			var ls []ipld.Link
			for l := 0; l < 2; l++ {
				if o.Ign&(1<<l) != 0 {
					ls = append(ls, asmLinks[l])
				}
			}
			st.IgnoreBlocks(ls)
		}
		if o.Skip > 0 {
			st.SkipFirstBlocks(int64(o.Skip))
		}
		r.obs = append(r.obs, "")
	case "trav":
		var bd graphsync.BlockData
		var data []byte
		if o.Has {
			data = asmData[o.L]
		}
		r.streams[o.R].Transaction(func(rb responseassembler.ResponseBuilder) error {
			bd = rb.SendResponse(asmLinks[o.L], data)
			return nil
		})
		m, ok := last()
		if !ok {
			r.obs = append(r.obs, "no-message")
			return
		}
		sent := len(m.Blocks()) > 0
		present := false
		for _, rs := range m.Responses() {
			if md, ok := rs.Metadata().(gsmsg.GraphSyncLinkMetadata); ok {
				for _, e := range md.RawMetadata() {
					present = e.Action == graphsync.LinkActionPresent
				}
			}
		}
		if (bd.BlockSizeOnWire() > 0) != sent {
			r.obs = append(r.obs, fmt.Sprintf("block-data-says-%v-but-message-has-%d-blocks", bd.BlockSizeOnWire() > 0, len(m.Blocks())))
			return
		}
		r.obs = append(r.obs, fmt.Sprintf("send=%v present=%v", sent, present))
	case "fin", "finerr":
		r.streams[o.R].Transaction(func(rb responseassembler.ResponseBuilder) error {
			if o.K == "fin" {
				rb.FinishRequest()
			} else {
				rb.FinishWithError(graphsync.RequestFailedUnknown)
			}
			return nil
		})
		m, ok := last()
		if !ok || len(m.Responses()) != 1 {
			r.obs = append(r.obs, "no-status")
			return
		}
		r.obs = append(r.obs, fmt.Sprintf("status=%d", m.Responses()[0].Status()))
	case "clear":
		r.streams[o.R].ClearRequest()
		r.obs = append(r.obs, "")
	}
}

func (r *asmReal) trackerKey() string {
	t := r.ra.PeerManager.GetProcess(asmPeer)
	return core.DeepKey(t, core.DeepOpts{SkipFields: map[string]bool{".linkTrackerLk": true}, SortSlices: true})
}

var asmEmptyKey string

func asmReplay(h []asmOp) (*asmModel, *asmReal, string, string) {
	m, r := newAsmModel(), newAsmReal()
	if asmEmptyKey == "" {
		asmEmptyKey = newAsmReal().trackerKey()
	}
	for i, o := range h {
		m.apply(o)
		r.apply(o)
		if m.obs[i] != r.obs[i] {
			sig := "send-decision-differs"
			switch {
			case strings.HasPrefix(m.obs[i], "status"):
				sig = "wrong-final-status"
			case strings.Contains(r.obs[i], "send=true") && strings.Contains(m.obs[i], "send=false"):
				sig = "block-sent-while-in-use-or-excluded"
			case strings.Contains(r.obs[i], "send=false") && strings.Contains(m.obs[i], "send=true"):
				sig = "block-withheld-although-not-in-use"
			}
			return m, r, sig, fmt.Sprintf("after [%s]: step %d %s observed %q, expected %q", asmOpsString(h[:i]), i+1, o, r.obs[i], m.obs[i])
		}
	}
	if m.idle() && len(h) > 0 {
		if k := r.trackerKey(); k != asmEmptyKey {
			return m, r, "tracking-state-left-when-idle", fmt.Sprintf("after [%s] no request is in progress but the peer's link tracker holds %s", asmOpsString(h), k)
		}
	}
	return m, r, "", ""
}

func asmStartConfigs(thorough bool) []asmOp {
	if !thorough {
		return []asmOp{
			{K: "start"}, {K: "start", Ign: 1}, {K: "start", Skip: 1},
			{K: "start", Key: "k"}, {K: "start", Key: "k", Ign: 1}, {K: "start", Key: "j"},
		}
	}
	var out []asmOp
	for _, k := range []string{"", "k", "j"} {
		for _, ign := range []int{0, 1, 3} {
			for _, sk := range []int{0, 1} {
				out = append(out, asmOp{K: "start", Key: k, Ign: ign, Skip: sk})
			}
		}
	}
	return out
}

// asmSucc: operations enabled after history h (by the model's bookkeeping).
// cfgs[i] is the set-up of the (i+1)-th request of this universe.
func asmSucc(m *asmModel, cfgs []asmOp, maxTrav int, withErr bool) []asmOp {
	var out []asmOp
	ids := []int{}
	for id := range m.reqs {
		ids = append(ids, id)
	}
	sort.Ints(ids)
	for _, id := range ids {
		r := m.reqs[id]
		if r.finished {
			continue
		}
		if r.count < maxTrav {
			for l := 0; l < 2; l++ {
				out = append(out, asmOp{K: "trav", R: id, L: l, Has: true}, asmOp{K: "trav", R: id, L: l, Has: false})
			}
		}
		out = append(out, asmOp{K: "fin", R: id}, asmOp{K: "clear", R: id})
		if withErr {
			out = append(out, asmOp{K: "finerr", R: id})
		}
	}
	if len(m.reqs) < len(cfgs) {
		s := cfgs[len(m.reqs)]
		s.R = len(m.reqs) + 1
		out = append(out, s)
	}
	return out
}

// asmBFS explores one universe (fixed set-up per request number) exhaustively
// with state merging.
func asmBFS(c *core.Ctx, cfgs []asmOp, depth, maxTrav int, withErr bool) bool {
	seen := map[string]bool{}
	var frontier [][]asmOp
	visit := func(h []asmOp) {
		m, r, sig, what := asmReplay(h)
		c.Res.Transitions++
		c.Res.Traces++
		c.Res.Evaluations++
		if sig != "" {
			c.Violate(sig, what, map[string]any{"history": h, "readable": asmOpsString(h)})
			return
		}
		fin := []int{}
		for id, rq := range m.reqs {
			if rq.finished {
				fin = append(fin, id)
			}
		}
		sort.Ints(fin)
		k := fmt.Sprintf("%s|n=%d fin=%v", r.trackerKey(), len(m.reqs), fin)
		if seen[k] {
			return
		}
		seen[k] = true
		c.Res.States++
		active, dedup := 0, 0
		for _, rq := range m.reqs {
			if !rq.finished {
				active++
				if rq.scope != "" {
					dedup++
				}
			}
		}
		nuse := 0
		for _, s := range m.inUse {
			nuse += len(s)
		}
		c.Class(fmt.Sprintf("active=%d keyed=%d inuse=%d scopes=%d", active, dedup, nuse, len(m.inUse)))
		for _, o := range m.obs {
			if strings.HasPrefix(o, "send=false present=true") {
				c.Count("states_after_a_suppressed_block", 1)
				break
			}
		}
		if len(h) < depth {
			frontier = append(frontier, h)
		}
	}
	first := cfgs[0]
	first.R = 1
	visit([]asmOp{first})
	for len(frontier) > 0 {
		if c.Expired() {
			c.Res.Exhaustive = false
			c.Note("deadline hit during BFS at depth %d", len(frontier[0]))
			return false
		}
		h := frontier[0]
		frontier = frontier[1:]
		m := newAsmModel()
		for _, o := range h {
			m.apply(o)
		}
		for _, o := range asmSucc(m, cfgs, maxTrav, withErr) {
			visit(append(append([]asmOp{}, h...), o))
		}
	}
	return true
}

func runC19(c *core.Ctx) {
	depth, maxReqs, maxTrav := 7, 3, 3
	if c.Thorough() {
		depth = 10
	}
	starts := asmStartConfigs(c.Thorough())
	var uni int64
	var rec func(cfgs []asmOp)
	stop := false
	rec = func(cfgs []asmOp) {
		if stop {
			return
		}
		if len(cfgs) == maxReqs {
			uni++
			if !c.Mine(uni) {
				return
			}
			// finish-with-error in the universes whose first request is unkeyed and plain, and everywhere in thorough
			withErr := c.Thorough() || (cfgs[0].Key == "" && cfgs[0].Ign == 0 && cfgs[0].Skip == 0)
			if !asmBFS(c, cfgs, depth, maxTrav, withErr) {
				stop = true
			}
			c.Count("universes", 1)
			if uni%37 == 1 {
				c.Sample(asmOpsString(cfgs))
			}
			return
		}
		for _, s := range starts {
			rec(append(append([]asmOp{}, cfgs...), s))
		}
	}
	rec(nil)
	if !stop {
		c.Res.BoundCompleted = depth
	}
}

func init() {
	core.Register(&core.Prop{ID: "C19", Level: "model_checking",
		Rule:        "for every assignment of set-ups (dedup key, ignore list, skip count; 6 set-ups quick, 18 thorough) to three successive requests of one peer: BFS over histories of {start next request, traverse(r, L1|L2, present|missing), finish(r), clear(r), finish-with-error(r)}, <=3 traversals per request, up to the stated depth, executed on the real ResponseAssembler through its public API over a capturing message handler; states merged on the reflect dump of the peer's private link tracker + which requests exist/finished; a class is a distinct (active requests, keyed requests, links in use, scopes) combination",
		Assumptions: []string{"reference model: per scope, a link is in use while an unfinished request traversed it present or listed it in its ignore list; send iff present, past the skip count and not in use", "set-up calls in the order of responsemanager.prepareQuery (dedup key, ignore list, skip count)", "the assembler is synchronous: no schedules involved"},
		Run:         runC19, QuickBudget: 300, ThoroughBudget: 2400,
		Replay: func(raw json.RawMessage) string {
			var w struct {
				History []asmOp `json:"history"`
			}
			if err := json.Unmarshal(raw, &w); err != nil {
				return err.Error()
			}
			_, _, sig, what := asmReplay(w.History)
			if sig == "" {
				return "ok"
			}
			return sig + ": " + what
		}})
}
