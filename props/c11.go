package props

import (
	"bytes"
	"encoding/json"
	"fmt"
	"math"
	"sort"
	"strings"

	blocks "github.com/ipfs/go-block-format"
	"github.com/ipfs/go-cid"
	"github.com/ipfs/go-graphsync"
	"github.com/ipfs/go-graphsync/cidset"
	"github.com/ipfs/go-graphsync/dedupkey"
	"github.com/ipfs/go-graphsync/donotsendfirstblocks"
	gsmsg "github.com/ipfs/go-graphsync/message"
	"github.com/ipld/go-ipld-prime/datamodel"
	"github.com/ipld/go-ipld-prime/fluent/qp"
	cidlink "github.com/ipld/go-ipld-prime/linking/cid"
	"github.com/ipld/go-ipld-prime/node/basicnode"
	p2pnet "github.com/libp2p/go-libp2p/core/network"
	"github.com/libp2p/go-libp2p/core/peer"
	"github.com/libp2p/go-msgio"
	mh "github.com/multiformats/go-multihash"

	"verif/core"
	"verif/harness"
)

// C11: wire encoding round-trips every well-formed message (DESIGN 6 C11).

type c11Part struct {
	Name string
	Req  *gsmsg.GraphSyncRequest
	Rsp  *gsmsg.GraphSyncResponse
	Blk  blocks.Block
}

func c11Cids() []cid.Cid {
	data := []byte("c11 block payload")
	var out []cid.Cid
	for _, p := range []cid.Prefix{
		{Version: 0, Codec: cid.DagProtobuf, MhType: mh.SHA2_256, MhLength: -1},
		{Version: 1, Codec: cid.Raw, MhType: mh.SHA2_256, MhLength: -1},
		{Version: 1, Codec: cid.DagCBOR, MhType: mh.SHA2_256, MhLength: -1},
		{Version: 1, Codec: cid.DagProtobuf, MhType: mh.SHA2_256, MhLength: -1},
		{Version: 1, Codec: cid.Raw, MhType: mh.SHA2_512, MhLength: -1},
		{Version: 1, Codec: cid.DagCBOR, MhType: mh.SHA2_512, MhLength: -1},
		{Version: 1, Codec: cid.Raw, MhType: mh.IDENTITY, MhLength: -1},
		{Version: 1, Codec: cid.DagCBOR, MhType: mh.IDENTITY, MhLength: -1},
		{Version: 1, Codec: cid.DagJSON, MhType: mh.SHA2_256, MhLength: -1},
		{Version: 1, Codec: cid.Raw, MhType: mh.SHA2_256, MhLength: 20},
	} {
		c, err := p.Sum(data)
		if err != nil {
			panic(err)
		}
		out = append(out, c)
	}
	return out
}

func c11Blocks() []blocks.Block {
	var out []blocks.Block
	for i, c := range c11Cids() {
		data := []byte(fmt.Sprintf("block-%d-data", i))
		if i == 1 {
			data = []byte{} // empty block
		}
		cc, err := c.Prefix().Sum(data)
		if err != nil {
			panic(err)
		}
		b, err := blocks.NewBlockWithCid(data, cc)
		if err != nil {
			panic(err)
		}
		out = append(out, b)
	}
	return out
}

type c11Ext struct {
	Name string
	Data datamodel.Node
}

func c11ExtData() []c11Ext {
	link := cidlink.Link{Cid: c11Cids()[2]}
	mk := func(f func(datamodel.NodeAssembler)) datamodel.Node {
		nb := basicnode.Prototype.Any.NewBuilder()
		f(nb)
		return nb.Build()
	}
	return []c11Ext{
		{"nil", nil},
		{"null", datamodel.Null},
		{"true", basicnode.NewBool(true)},
		{"int0", basicnode.NewInt(0)},
		{"int-1", basicnode.NewInt(-1)},
		{"intmax", basicnode.NewInt(math.MaxInt64)},
		{"intmin", basicnode.NewInt(math.MinInt64)},
		{"float", basicnode.NewFloat(1.5)},
		{"str-empty", basicnode.NewString("")},
		{"str-utf8", basicnode.NewString("héllo ☃")},
		{"bytes", basicnode.NewBytes([]byte{0, 1, 2, 255})},
		{"bytes-empty", basicnode.NewBytes([]byte{})},
		{"link", basicnode.NewLink(link)},
		{"list", mk(qp.List(3, func(la datamodel.ListAssembler) {
			qp.ListEntry(la, qp.Int(1))
			qp.ListEntry(la, qp.Null())
			qp.ListEntry(la, qp.String("x"))
		}))},
		{"list-empty", mk(qp.List(0, func(la datamodel.ListAssembler) {}))},
		{"map-empty", mk(qp.Map(0, func(ma datamodel.MapAssembler) {}))},
		{"map-nested", mk(qp.Map(2, func(ma datamodel.MapAssembler) {
			qp.MapEntry(ma, "a", qp.Map(1, func(ma2 datamodel.MapAssembler) {
				qp.MapEntry(ma2, "b", qp.List(1, func(la datamodel.ListAssembler) { qp.ListEntry(la, qp.Link(link)) }))
			}))
			qp.MapEntry(ma, "z", qp.Null())
		}))},
	}
}

func c11Selectors() []c11Ext {
	return []c11Ext{
		{"absent", nil},
		{"all-d10", harness.RecAll(10)},
		{"matcher", (&selAST{K: "."}).node()},
		{"union", (&selAST{K: "|", Kids: []*selAST{{K: "f", Kids: []*selAST{{K: "."}}}, {K: "R", Limit: 5, Stop: true, Kids: []*selAST{{K: "a", Kids: []*selAST{{K: "@"}}}}}}}).node()},
	}
}

var c11Statuses = []graphsync.ResponseStatusCode{
	graphsync.RequestAcknowledged, graphsync.AdditionalPeers, graphsync.NotEnoughGas, graphsync.OtherProtocol, graphsync.PartialResponse, graphsync.RequestPaused,
	graphsync.RequestCompletedFull, graphsync.RequestCompletedPartial,
	graphsync.RequestRejected, graphsync.RequestFailedBusy, graphsync.RequestFailedUnknown, graphsync.RequestFailedLegal, graphsync.RequestFailedContentNotFound, graphsync.RequestCancelled,
}

var c11Actions = []graphsync.LinkAction{graphsync.LinkActionPresent, graphsync.LinkActionDuplicateNotSent, graphsync.LinkActionMissing, graphsync.LinkActionDuplicateDAGSkipped}

// ---- equivalence

func nodeEq(a, b datamodel.Node) bool {
	if a == nil || a.IsNull() {
		return b == nil || b.IsNull()
	}
	if b == nil {
		return false
	}
	return deepEqUnordered(a, b)
}

// deepEqUnordered is DeepEqual with map entries compared regardless of order
// (dag-cbor writes map keys in its canonical order, so entry order is not part
// of a message's meaning).
func deepEqUnordered(x, y datamodel.Node) bool {
	if x.Kind() != y.Kind() {
		return false
	}
	switch x.Kind() {
	case datamodel.Kind_Map:
		if x.Length() != y.Length() {
			return false
		}
		it := x.MapIterator()
		for !it.Done() {
			k, v, err := it.Next()
			if err != nil {
				return false
			}
			ks, err := k.AsString()
			if err != nil {
				return false
			}
			w, err := y.LookupByString(ks)
			if err != nil || !deepEqUnordered(v, w) {
				return false
			}
		}
		return true
	case datamodel.Kind_List:
		if x.Length() != y.Length() {
			return false
		}
		for i := int64(0); i < x.Length(); i++ {
			a, _ := x.LookupByIndex(i)
			b, _ := y.LookupByIndex(i)
			if a == nil || b == nil || !deepEqUnordered(a, b) {
				return false
			}
		}
		return true
	}
	return datamodel.DeepEqual(x, y)
}

type extPart interface {
	ExtensionNames() []graphsync.ExtensionName
	Extension(graphsync.ExtensionName) (datamodel.Node, bool)
}

func extsEq(a, b extPart) string {
	an, bn := a.ExtensionNames(), b.ExtensionNames()
	as, bs := []string{}, []string{}
	for _, n := range an {
		as = append(as, string(n))
	}
	for _, n := range bn {
		bs = append(bs, string(n))
	}
	sort.Strings(as)
	sort.Strings(bs)
	if strings.Join(as, "\x00") != strings.Join(bs, "\x00") {
		return fmt.Sprintf("extension names %q vs %q", as, bs)
	}
	for _, n := range an {
		x, _ := a.Extension(n)
		y, ok := b.Extension(n)
		if !ok || !nodeEq(x, y) {
			return fmt.Sprintf("extension %q payload differs", n)
		}
	}
	return ""
}

func msgEq(a, b gsmsg.GraphSyncMessage) string {
	ar, br := a.Requests(), b.Requests()
	if len(ar) != len(br) {
		return fmt.Sprintf("%d requests vs %d", len(ar), len(br))
	}
	bm := map[graphsync.RequestID]gsmsg.GraphSyncRequest{}
	for _, r := range br {
		bm[r.ID()] = r
	}
	for _, x := range ar {
		y, ok := bm[x.ID()]
		if !ok {
			return "request id lost"
		}
		if x.Type() != y.Type() {
			return fmt.Sprintf("request type %s vs %s", x.Type(), y.Type())
		}
		if x.Type() == graphsync.RequestTypeCancel {
			continue
		}
		if d := extsEq(x, y); d != "" {
			return "request " + d
		}
		if x.Type() == graphsync.RequestTypeUpdate {
			continue
		}
		if !x.Root().Equals(y.Root()) {
			return fmt.Sprintf("root %s vs %s", x.Root(), y.Root())
		}
		if x.Priority() != y.Priority() {
			return fmt.Sprintf("priority %d vs %d", x.Priority(), y.Priority())
		}
		if (x.Selector() == nil) != (y.Selector() == nil) || (x.Selector() != nil && !deepEqUnordered(x.Selector(), y.Selector())) {
			return "selector differs"
		}
	}
	ap, bp := a.Responses(), b.Responses()
	if len(ap) != len(bp) {
		return fmt.Sprintf("%d responses vs %d", len(ap), len(bp))
	}
	bpm := map[graphsync.RequestID]gsmsg.GraphSyncResponse{}
	for _, r := range bp {
		bpm[r.RequestID()] = r
	}
	for _, x := range ap {
		y, ok := bpm[x.RequestID()]
		if !ok {
			return "response id lost"
		}
		if x.Status() != y.Status() {
			return fmt.Sprintf("status %d vs %d", x.Status(), y.Status())
		}
		if d := extsEq(x, y); d != "" {
			return "response " + d
		}
		xm, ym := x.Metadata().(gsmsg.GraphSyncLinkMetadata).RawMetadata(), y.Metadata().(gsmsg.GraphSyncLinkMetadata).RawMetadata()
		if len(xm) != len(ym) {
			return fmt.Sprintf("metadata length %d vs %d", len(xm), len(ym))
		}
		for i := range xm {
			if !xm[i].Link.Equals(ym[i].Link) || xm[i].Action != ym[i].Action {
				return fmt.Sprintf("metadata entry %d differs", i)
			}
		}
	}
	ab, bb := a.Blocks(), b.Blocks()
	if len(ab) != len(bb) {
		return fmt.Sprintf("%d blocks vs %d", len(ab), len(bb))
	}
	bbm := map[string][]byte{}
	for _, x := range bb {
		bbm[x.Cid().KeyString()] = x.RawData()
	}
	for _, x := range ab {
		d, ok := bbm[x.Cid().KeyString()]
		if !ok {
			return fmt.Sprintf("block %s lost or re-keyed", x.Cid())
		}
		if !bytes.Equal(d, x.RawData()) {
			return "block bytes differ"
		}
	}
	return ""
}

func c11RoundTrip(ms []gsmsg.GraphSyncMessage) string {
	var buf bytes.Buffer
	for _, m := range ms {
		if err := harness.MH.ToNet(peer.ID("x"), m, &buf); err != nil {
			return "encode error: " + err.Error()
		}
	}
	r := msgio.NewVarintReaderSize(bytes.NewReader(buf.Bytes()), p2pnet.MessageSizeMax)
	for i, m := range ms {
		got, err := harness.MH.FromMsgReader(peer.ID("x"), r)
		if err != nil {
			return fmt.Sprintf("message %d of %d: decode error: %v", i+1, len(ms), err)
		}
		if d := msgEq(m, got); d != "" {
			return fmt.Sprintf("message %d of %d: %s", i+1, len(ms), d)
		}
	}
	if _, err := harness.MH.FromMsgReader(peer.ID("x"), r); err == nil {
		return "extra message decoded from the stream"
	}
	return ""
}

func c11Build(parts []c11Part) gsmsg.GraphSyncMessage {
	rq := map[graphsync.RequestID]gsmsg.GraphSyncRequest{}
	rs := map[graphsync.RequestID]gsmsg.GraphSyncResponse{}
	bl := map[cid.Cid]blocks.Block{}
	for _, p := range parts {
		if p.Req != nil {
			rq[p.Req.ID()] = *p.Req
		}
		if p.Rsp != nil {
			rs[p.Rsp.RequestID()] = *p.Rsp
		}
		if p.Blk != nil {
			bl[p.Blk.Cid()] = p.Blk
		}
	}
	return gsmsg.NewMessage(rq, rs, bl)
}

// pools
func c11Requests(full bool) []c11Part {
	var out []c11Part
	cids := c11Cids()
	exts := c11ExtData()
	sels := c11Selectors()
	prios := []graphsync.Priority{0, 1, -1, math.MaxInt32, math.MinInt32}
	add := func(name string, r gsmsg.GraphSyncRequest) { out = append(out, c11Part{Name: name, Req: &r}) }
	n := byte(0)
	id := func() graphsync.RequestID { n++; return harness.MkID(n%250 + 1) }
	for _, pr := range prios {
		for ci, c := range cids {
			for _, s := range sels {
				add(fmt.Sprintf("new pri=%d cid#%d sel=%s", pr, ci, s.Name), gsmsg.NewRequest(id(), c, s.Data, pr))
			}
		}
	}
	// undefined root (absent optional)
	add("new root-absent", gsmsg.NewRequest(id(), cid.Undef, sels[1].Data, 1))
	mkx := func(es ...c11Ext) []graphsync.ExtensionData {
		var o []graphsync.ExtensionData
		for _, e := range es {
			o = append(o, graphsync.ExtensionData{Name: graphsync.ExtensionName("x/" + e.Name), Data: e.Data})
		}
		return o
	}
	for i, e := range exts {
		add("new ext="+e.Name, gsmsg.NewRequest(id(), cids[2], sels[1].Data, 1, mkx(e)...))
		add("update ext="+e.Name, gsmsg.NewUpdateRequest(id(), mkx(e)...))
		if full || i%4 == 0 {
			for _, e2 := range exts {
				if e2.Name != e.Name {
					add("new ext="+e.Name+"+"+e2.Name, gsmsg.NewRequest(id(), cids[0], sels[3].Data, -1, mkx(e, e2)...))
				}
			}
		}
	}
	add("new ext-empty-name", gsmsg.NewRequest(id(), cids[1], sels[1].Data, 1, graphsync.ExtensionData{Name: "", Data: basicnode.NewInt(7)}))
	add("cancel", gsmsg.NewCancelRequest(id()))
	add("update no-ext", gsmsg.NewUpdateRequest(id()))
	return out
}

func c11Responses(full bool) []c11Part {
	var out []c11Part
	cids := c11Cids()
	links := []cid.Cid{cids[2], cids[0], cids[6]}
	var mds [][]gsmsg.GraphSyncLinkMetadatum
	var rec func(cur []gsmsg.GraphSyncLinkMetadatum)
	rec = func(cur []gsmsg.GraphSyncLinkMetadatum) {
		mds = append(mds, append([]gsmsg.GraphSyncLinkMetadatum{}, cur...))
		if len(cur) == 3 {
			return
		}
		for _, a := range c11Actions {
			rec(append(cur, gsmsg.GraphSyncLinkMetadatum{Link: links[len(cur)], Action: a}))
		}
	}
	rec(nil)
	// same link twice
	mds = append(mds, []gsmsg.GraphSyncLinkMetadatum{{Link: links[0], Action: graphsync.LinkActionPresent}, {Link: links[0], Action: graphsync.LinkActionDuplicateNotSent}})
	exts := c11ExtData()
	n := byte(0)
	id := func() graphsync.RequestID { n++; return harness.MkID(n%250 + 1) }
	for _, st := range c11Statuses {
		for mi, md := range mds {
			r := gsmsg.NewResponse(id(), st, md)
			out = append(out, c11Part{Name: fmt.Sprintf("rsp st=%d md#%d", st, mi), Rsp: &r})
		}
		for _, e := range exts {
			r := gsmsg.NewResponse(id(), st, mds[len(mds)-1], graphsync.ExtensionData{Name: graphsync.ExtensionName("y/" + e.Name), Data: e.Data}, graphsync.ExtensionData{Name: "y/second", Data: basicnode.NewString("s")})
			out = append(out, c11Part{Name: fmt.Sprintf("rsp st=%d ext=%s", st, e.Name), Rsp: &r})
		}
	}
	return out
}

type c11Case struct {
	Kind  string   `json:"kind"`
	Parts []string `json:"parts"`
	Index int64    `json:"index"`
}

func c11Enumerate(full bool, visit func(idx int64, cs c11Case, run func() string) bool) {
	var idx int64
	reqs, rsps := c11Requests(full), c11Responses(full)
	var blks []c11Part
	for i, b := range c11Blocks() {
		blks = append(blks, c11Part{Name: fmt.Sprintf("blk#%d", i), Blk: b})
	}
	names := func(ps []c11Part) []string {
		var o []string
		for _, p := range ps {
			o = append(o, p.Name)
		}
		return o
	}
	emit := func(kind string, msgs [][]c11Part) bool {
		idx++
		var ns []string
		for _, m := range msgs {
			ns = append(ns, "["+strings.Join(names(m), "; ")+"]")
		}
		return visit(idx, c11Case{kind, ns, idx}, func() string {
			var ms []gsmsg.GraphSyncMessage
			for _, m := range msgs {
				ms = append(ms, c11Build(m))
			}
			return c11RoundTrip(ms)
		})
	}
	// 1. every single part alone
	for _, pool := range [][]c11Part{reqs, rsps, blks} {
		for _, p := range pool {
			if !emit("single", [][]c11Part{{p}}) {
				return
			}
		}
	}
	// 2. block sets of size 0..3
	for i := 0; i < len(blks); i++ {
		for j := i + 1; j < len(blks); j++ {
			if !emit("blocks2", [][]c11Part{{blks[i], blks[j]}}) {
				return
			}
			for k := j + 1; k < len(blks); k++ {
				if !emit("blocks3", [][]c11Part{{blks[i], blks[j], blks[k]}}) {
					return
				}
			}
		}
	}
	if !emit("empty", [][]c11Part{{}}) {
		return
	}
	// 2b. several responses in one message, some with link metadata and some without (either wire order)
	{
		cids := c11Cids()
		mdA := []gsmsg.GraphSyncLinkMetadatum{{Link: cids[2], Action: graphsync.LinkActionPresent}, {Link: cids[0], Action: graphsync.LinkActionMissing}}
		mdB := []gsmsg.GraphSyncLinkMetadatum{{Link: cids[6], Action: graphsync.LinkActionDuplicateNotSent}}
		mk := func(name string, idb byte, st graphsync.ResponseStatusCode, md []gsmsg.GraphSyncLinkMetadatum, exts ...graphsync.ExtensionData) c11Part {
			r := gsmsg.NewResponse(harness.MkID(idb), st, md, exts...)
			return c11Part{Name: fmt.Sprintf("rsp id=%d st=%d %s", idb, st, name), Rsp: &r}
		}
		ext := graphsync.ExtensionData{Name: "y/only", Data: basicnode.NewString("s")}
		for _, st := range c11Statuses {
			for _, ids := range [][3]byte{{1, 2, 3}, {3, 2, 1}, {2, 1, 3}, {2, 3, 1}} {
				for _, withExt := range []bool{false, true} {
					var ex []graphsync.ExtensionData
					if withExt {
						ex = append(ex, ext)
					}
					a := mk("md=2", ids[0], graphsync.PartialResponse, mdA)
					b := mk("md=none", ids[1], st, nil, ex...)
					d := mk("md=1", ids[2], graphsync.PartialResponse, mdB)
					if !emit("responses-mixed-metadata", [][]c11Part{{a, b}}) || !emit("responses-mixed-metadata", [][]c11Part{{a, b, d}}) || !emit("responses-mixed-metadata", [][]c11Part{{b, a}, {a, b}}) {
						return
					}
				}
			}
		}
	}
	// 3. combinations of 0..2 of each kind from reduced pools
	pick := func(pool []c11Part, n int) []c11Part {
		var o []c11Part
		step := len(pool) / n
		for i := 0; i < n; i++ {
			o = append(o, pool[(i*step+i)%len(pool)])
		}
		return o
	}
	nq, np, nb := 8, 8, 5
	if full {
		nq, np, nb = 14, 14, 8
	}
	subsets := func(pool []c11Part) [][]c11Part {
		o := [][]c11Part{{}}
		for i := range pool {
			o = append(o, []c11Part{pool[i]})
		}
		for i := range pool {
			for j := i + 1; j < len(pool); j++ {
				if pool[i].Req != nil && pool[i].Req.ID() == pool[j].Req.ID() {
					continue
				}
				if pool[i].Rsp != nil && pool[i].Rsp.RequestID() == pool[j].Rsp.RequestID() {
					continue
				}
				o = append(o, []c11Part{pool[i], pool[j]})
			}
		}
		return o
	}
	qs, ps, bs := subsets(pick(reqs, nq)), subsets(pick(rsps, np)), subsets(pick(blks, nb))
	for _, a := range qs {
		for _, b := range ps {
			for _, c := range bs {
				parts := append(append(append([]c11Part{}, a...), b...), c...)
				if !emit("combined", [][]c11Part{parts}) {
					return
				}
			}
		}
	}
	// 4. streams of 1..3 messages
	var pool [][]c11Part
	pq, pp, pb := pick(reqs, 4), pick(rsps, 4), pick(blks, 3)
	pool = append(pool, []c11Part{pq[0]}, []c11Part{pq[1], pq[2]}, []c11Part{pp[0], pb[0]}, []c11Part{pp[1], pp[2], pb[1], pb[2]}, []c11Part{pq[3], pp[3]}, []c11Part{pb[0]}, []c11Part{})
	for _, a := range pool {
		for _, b := range pool {
			if !emit("stream2", [][]c11Part{a, b}) {
				return
			}
			for _, c := range pool {
				if !emit("stream3", [][]c11Part{a, b, c}) {
					return
				}
			}
		}
	}
}

// c11Large: messages close to the frame limit (network.MessageSizeMax): many link-metadata entries, many small
// blocks, one big block, one big extension payload, and two of them back to back on one stream. Each is
// well-formed iff its encoding fits the frame limit (otherwise it is skipped, and counted as such).
func c11Large(visit func(name string, run func() (string, bool)) bool) {
	pfx := cid.Prefix{Version: 1, Codec: cid.Raw, MhType: mh.SHA2_256, MhLength: -1}
	mkCid := func(i int) cid.Cid {
		c, _ := pfx.Sum([]byte(fmt.Sprintf("c11-large-%d", i)))
		return c
	}
	manyLinks := func(n int) gsmsg.GraphSyncMessage {
		md := make([]gsmsg.GraphSyncLinkMetadatum, n)
		for i := range md {
			md[i] = gsmsg.GraphSyncLinkMetadatum{Link: mkCid(i), Action: c11Actions[i%len(c11Actions)]}
		}
		r := gsmsg.NewResponse(harness.MkID(1), graphsync.PartialResponse, md)
		return gsmsg.NewMessage(nil, map[graphsync.RequestID]gsmsg.GraphSyncResponse{r.RequestID(): r}, nil)
	}
	manyBlocks := func(n, size int) gsmsg.GraphSyncMessage {
		bl := map[cid.Cid]blocks.Block{}
		for i := 0; i < n; i++ {
			data := bytes.Repeat([]byte{byte(i), byte(i >> 8), byte(i >> 16)}, size/3+1)[:size]
			c, _ := pfx.Sum(data)
			b, _ := blocks.NewBlockWithCid(data, c)
			bl[c] = b
		}
		return gsmsg.NewMessage(nil, nil, bl)
	}
	bigExt := func(size int) gsmsg.GraphSyncMessage {
		r := gsmsg.NewRequest(harness.MkID(2), mkCid(0), c11Selectors()[1].Data, 1, graphsync.ExtensionData{Name: "x/big", Data: basicnode.NewBytes(make([]byte, size))})
		return gsmsg.NewMessage(map[graphsync.RequestID]gsmsg.GraphSyncRequest{r.ID(): r}, nil, nil)
	}
	type lg struct {
		name string
		mk   func() []gsmsg.GraphSyncMessage
	}
	var cases []lg
	one := func(name string, f func() gsmsg.GraphSyncMessage) {
		cases = append(cases, lg{name, func() []gsmsg.GraphSyncMessage { return []gsmsg.GraphSyncMessage{f()} }})
	}
	for _, n := range []int{1000, 30000, 60000, 80000, 90000, 95000} {
		n := n
		one(fmt.Sprintf("response with %d link-metadata entries", n), func() gsmsg.GraphSyncMessage { return manyLinks(n) })
	}
	for _, n := range []int{1000, 20000, 30000, 36000, 38000, 39000} {
		n := n
		one(fmt.Sprintf("%d blocks of 100 bytes", n), func() gsmsg.GraphSyncMessage { return manyBlocks(n, 100) })
	}
	for _, n := range []int{100000, 200000, 300000} {
		n := n
		one(fmt.Sprintf("%d blocks of 3 bytes", n), func() gsmsg.GraphSyncMessage { return manyBlocks(n, 3) })
	}
	for _, sz := range []int{1 << 20, 3 << 20, 4<<20 - 4096, 4<<20 - 256, 4<<20 - 128, 4<<20 - 80, 4<<20 - 64} {
		sz := sz
		one(fmt.Sprintf("one block of %d bytes", sz), func() gsmsg.GraphSyncMessage { return manyBlocks(1, sz) })
		one(fmt.Sprintf("one extension payload of %d bytes", sz), func() gsmsg.GraphSyncMessage { return bigExt(sz) })
	}
	cases = append(cases, lg{"stream: 80000 link entries, 36000 small blocks, a 3 MiB block", func() []gsmsg.GraphSyncMessage {
		return []gsmsg.GraphSyncMessage{manyLinks(80000), manyBlocks(36000, 100), manyBlocks(1, 3<<20)}
	}})
	for _, cs := range cases {
		cs := cs
		if !visit(cs.name, func() (string, bool) {
			ms := cs.mk()
			for _, m := range ms {
				var buf bytes.Buffer
				if err := harness.MH.ToNet(peer.ID("x"), m, &buf); err != nil || buf.Len() > p2pnet.MessageSizeMax {
					return "", false // does not fit a frame: not a well-formed message
				}
			}
			return c11RoundTrip(ms), true
		}) {
			return
		}
	}
}

// extension payload codecs carried through a message
func c11ExtCodecs() (sig, what string, n int64) {
	cids := c11Cids()
	rt := func(ed graphsync.ExtensionData) (datamodel.Node, string) {
		m := harness.ReqMsg(gsmsg.NewRequest(harness.MkID(9), cids[2], harness.RecAll(3), 1, ed))
		var buf bytes.Buffer
		if err := harness.MH.ToNet(peer.ID("x"), m, &buf); err != nil {
			return nil, err.Error()
		}
		got, err := harness.MH.FromNet(peer.ID("x"), &buf)
		if err != nil {
			return nil, err.Error()
		}
		d, ok := got.Requests()[0].Extension(ed.Name)
		if !ok {
			return nil, "extension lost"
		}
		return d, ""
	}
	// cid sets of size 0..3
	for mask := 0; mask < 1<<4; mask++ {
		set := cid.NewSet()
		cnt := 0
		for i := 0; i < 4; i++ {
			if mask&(1<<i) != 0 {
				set.Add(cids[[]int{0, 2, 6, 4}[i]])
				cnt++
			}
		}
		if cnt > 3 {
			continue
		}
		n++
		d, e := rt(graphsync.ExtensionData{Name: graphsync.ExtensionDoNotSendCIDs, Data: cidset.EncodeCidSet(set)})
		if e != "" {
			return "ext-codec/do-not-send-cids", e, n
		}
		got, err := cidset.DecodeCidSet(d)
		if err != nil {
			return "ext-codec/do-not-send-cids", err.Error(), n
		}
		if got.Len() != set.Len() {
			return "ext-codec/do-not-send-cids", fmt.Sprintf("set of %d decoded as %d", set.Len(), got.Len()), n
		}
		bad := false
		set.ForEach(func(c cid.Cid) error {
			if !got.Has(c) {
				bad = true
			}
			return nil
		})
		if bad {
			return "ext-codec/do-not-send-cids", "decoded set differs", n
		}
	}
	for _, v := range []int64{0, 1, -1, 2, 1 << 40, math.MaxInt64, math.MinInt64} {
		n++
		d, e := rt(graphsync.ExtensionData{Name: graphsync.ExtensionsDoNotSendFirstBlocks, Data: donotsendfirstblocks.EncodeDoNotSendFirstBlocks(v)})
		if e != "" {
			return "ext-codec/do-not-send-first-blocks", e, n
		}
		got, err := donotsendfirstblocks.DecodeDoNotSendFirstBlocks(d)
		if err != nil || got != v {
			return "ext-codec/do-not-send-first-blocks", fmt.Sprintf("%d decoded as %d (%v)", v, got, err), n
		}
	}
	for _, v := range []string{"", "key", "héllo ☃", strings.Repeat("k", 300), "a\x00b"} {
		n++
		nd, err := dedupkey.EncodeDedupKey(v)
		if err != nil {
			return "ext-codec/dedup-key", err.Error(), n
		}
		d, e := rt(graphsync.ExtensionData{Name: graphsync.ExtensionDeDupByKey, Data: nd})
		if e != "" {
			return "ext-codec/dedup-key", e, n
		}
		got, err := dedupkey.DecodeDedupKey(d)
		if err != nil || got != v {
			return "ext-codec/dedup-key", fmt.Sprintf("%q decoded as %q (%v)", v, got, err), n
		}
	}
	return "", "", n
}

func c11Sig(kind, diff string) string {
	d := diff
	for _, cut := range []string{":", " vs", " \""} {
		if i := strings.Index(d, cut); i > 0 && !strings.HasPrefix(d, "message ") {
			d = d[:i]
		}
	}
	if strings.HasPrefix(d, "message ") {
		if i := strings.Index(d, ": "); i > 0 {
			d = d[i+2:]
		}
		for _, cut := range []string{":", " vs", " \""} {
			if i := strings.Index(d, cut); i > 0 {
				d = d[:i]
			}
		}
	}
	d = strings.Map(func(r rune) rune {
		if r >= '0' && r <= '9' {
			return -1
		}
		return r
	}, d)
	return "round-trip/" + strings.ReplaceAll(strings.TrimSpace(d), " ", "-")
}

func runC11(c *core.Ctx) {
	if c.Mine(0) {
		sig, what, n := c11ExtCodecs()
		c.Count("extension_codec_round_trips", n)
		c.Res.Evaluations += n
		if sig != "" {
			c.Violate(sig, what, c11Case{Kind: "ext-codec"})
		}
	}
	li := int64(0)
	c11Large(func(name string, run func() (string, bool)) bool {
		li++
		if !c.Mine(li) {
			return true
		}
		d, fits := run()
		if !fits {
			c.Count("large_messages_beyond_the_frame_limit_skipped", 1)
			return true
		}
		c.Res.Evaluations++
		c.Class("large")
		c.Count("messages_large", 1)
		if d != "" {
			c.Violate(c11Sig("large", d), fmt.Sprintf("%s: %s", name, d), c11Case{Kind: "large", Parts: []string{name}})
		}
		return true
	})
	c11Enumerate(c.Thorough(), func(idx int64, cs c11Case, run func() string) bool {
		if !c.Mine(idx) {
			return true
		}
		if idx%2048 == 0 && c.Expired() {
			c.Res.Exhaustive = false
			return false
		}
		d := run()
		c.Res.Evaluations++
		c.Class(cs.Kind)
		c.Count("messages_"+cs.Kind, 1)
		if idx%20011 == 3 {
			c.Sample(cs)
		}
		if d != "" {
			c.Violate(c11Sig(cs.Kind, d), fmt.Sprintf("%s %v: %s", cs.Kind, cs.Parts, d), cs)
		}
		return true
	})
}

func init() {
	core.Register(&core.Prop{ID: "C11", Level: "exploration",
		Rule:        "message grammar: New requests over priority{0,1,-1,MaxInt32,MinInt32} x 10 CID forms (v0, v1 x raw/dag-cbor/dag-pb/dag-json x sha2-256/sha2-512/identity/truncated) x selector{absent,3 specs}; absent root; 17 extension payload kinds (nil, null, bool, ints incl. extremes, float, strings, bytes, link, lists, maps, nested) singly and in pairs; cancel; update; responses over all 14 status codes x every metadata sequence of length 0..3 over the 4 link actions (+ a repeated link) x extension payloads; blocks over the CID forms incl. empty and identity; sets of 0..3 blocks; messages combining 0..2 requests x 0..2 responses x 0..2 blocks from reduced pools; streams of 2 and 3 length-prefixed messages (incl. empty messages); extension codecs (CID sets of size 0..3, int64 extremes, strings) carried through a message. Each case is encoded with ToNet and decoded with FromMsgReader on one stream; a class is a case kind",
		Assumptions: []string{"equivalence: same request ids/types/roots/priorities, selector deep-equal, extension name set and payload deep-equal with Go nil == IPLD Null, status, metadata order, block set by CID with equal bytes"},
		Run:         runC11, QuickBudget: 240, ThoroughBudget: 1800,
		Replay: func(raw json.RawMessage) string {
			var cs c11Case
			if err := json.Unmarshal(raw, &cs); err != nil {
				return err.Error()
			}
			if cs.Kind == "ext-codec" {
				sig, what, _ := c11ExtCodecs()
				if sig == "" {
					return "ok"
				}
				return sig + ": " + what
			}
			res := "case not found"
			if cs.Kind == "large" {
				c11Large(func(name string, run func() (string, bool)) bool {
					if len(cs.Parts) == 1 && name == cs.Parts[0] {
						res, _ = run()
						if res == "" {
							res = "ok"
						}
						return false
					}
					return true
				})
				return res
			}
			for _, full := range []bool{false, true} {
				c11Enumerate(full, func(idx int64, x c11Case, run func() string) bool {
					if idx == cs.Index && x.Kind == cs.Kind && strings.Join(x.Parts, "|") == strings.Join(cs.Parts, "|") {
						res = run()
						if res == "" {
							res = "ok"
						}
						return false
					}
					return true
				})
				if res != "case not found" {
					break
				}
			}
			return res
		}})
}
