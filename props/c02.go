package props

import (
	"encoding/json"
	"fmt"
	"sort"
	"strings"

	"github.com/ipfs/go-graphsync"
	gsimpl "github.com/ipfs/go-graphsync/impl"
	"github.com/ipfs/go-graphsync/zzverif/vsched"
	"github.com/libp2p/go-libp2p/core/peer"

	"verif/core"
	"verif/harness"
)

// C02: bounded-exhaustive shapes x selectors x store splits; two real
// instances on the fake network (real wire encoding), default schedule;
// oracle = two-store reference traversal (DESIGN 6 C02).

type c02Case struct {
	Shape harness.Shape `json:"shape"`
	Sel   string        `json:"selector"`
	Split harness.Split `json:"split"`
}

type exchangeObs struct {
	Visits   []harness.Visit
	Errs     []string
	Closed   bool
	Store    []string
	Deadlock bool
	Panic    string
	Wire     []*harness.Wire
	ReqRec   *harness.Recorder
	RespRec  *harness.Recorder
}

// runExchange executes one request Q->R under the given schedule config.
func runExchange(cfg vsched.Config, d *harness.DAG, sel harness.SelSpec, split harness.Split, qopts, ropts []gsimpl.Option, exts ...graphsync.ExtensionData) (*exchangeObs, *vsched.Sched) {
	obs := &exchangeObs{}
	s := vsched.Run(cfg, func() {
		f := harness.NewFixture(false)
		qs, rs := d.Stores(split)
		q := f.AddNode(peer.ID("Q"), qs, qopts...)
		r := f.AddNode(peer.ID("R"), rs, ropts...)
		q.RecordIncoming()
		res := q.Request(f, r.ID, d.Root, sel.Node, harness.MkID(1), exts...)
		vsched.Quiesce()
		obs.Visits = append(obs.Visits, res.Visits...)
		obs.Errs = res.ErrStrings(d)
		obs.Closed = res.Closed()
		obs.Store = qs.Keys()
		obs.Wire = f.Net.Wire
		obs.ReqRec, obs.RespRec = q.Rec, r.Rec
		f.Cancel()
	})
	obs.Deadlock = s.Deadlock
	if s.Panic != nil {
		obs.Panic = fmt.Sprint(s.Panic)
	}
	return obs, s
}

func findSel(name string) harness.SelSpec {
	for _, s := range harness.Selectors(true) {
		if s.Name == name {
			return s
		}
	}
	panic("unknown selector " + name)
}

// c02Check compares one exchange with the reference; returns signature, what.
func c02Check(d *harness.DAG, sel harness.SelSpec, split harness.Split) (string, string, string) {
	sig, what, class := c02CheckInner(d, sel, split)
	if sig != "" && sel.Name == "fields-e1-e0" && !strings.HasPrefix(sig, "responder-lacks-root") && sig != "panic" {
		// The selector lists its fields in non-canonical order (e1 before e0). dag-cbor sorts map keys on the wire,
		// so the responder traverses e0 first while the requestor's in-memory selector says e1 first: whenever the
		// responder is involved the two traversals disagree (incorrect-response error or misplaced data). Known finding.
		sig = "selector-field-order-changed-by-wire-encoding/requestor-and-responder-traverse-in-different-orders"
	}
	return sig, what, class
}

func c02CheckInner(d *harness.DAG, sel harness.SelSpec, split harness.Split) (string, string, string) {
	qs, rs := d.Stores(split)
	ref := harness.Reference(d.Root, sel.Node, harness.RefOpts{Local: qs, Remote: rs, RemoteNeedsPath: true})
	obs, _ := runExchange(vsched.Config{Fast: true}, d, sel, split, nil, nil)
	class := fmt.Sprintf("visits=%d missing=%d remote=%d rootmiss=%v", len(ref.Visits), len(ref.Missing), len(ref.Store.Log), ref.RootMiss)
	if obs.Panic != "" {
		return "panic", obs.Panic, class
	}
	if !obs.Closed {
		return "channels-not-closed", "result channels not closed at quiescence", class
	}
	var refMissing []string
	for _, m := range ref.Missing {
		refMissing = append(refMissing, "missing:"+d.Name(m.Link)+"@"+m.Path)
	}
	gotV, wantV := harness.VisitsString(obs.Visits), harness.VisitsString(ref.Visits)
	var otherErrs, gotMissing []string
	for _, e := range obs.Errs {
		if strings.HasPrefix(e, "missing:") {
			gotMissing = append(gotMissing, e)
		} else {
			otherErrs = append(otherErrs, e)
		}
	}
	sort.Strings(gotMissing)
	sort.Strings(refMissing)
	// which side lacks what (for the signature)
	detail := fmt.Sprintf("shape %s selector %s split %s: delivered [%s] expected [%s]; errors %v expected missing %v", d.Shape, sel.Name, split, shorten(gotV), shorten(wantV), obs.Errs, refMissing)
	if ref.RootMiss {
		// neither side holds the root: nothing to deliver, one missing-block error for the root
		if len(obs.Visits) != 0 {
			return "root-missing-but-delivered", detail, class
		}
		return "", "", class
	}
	storeOK := strings.Join(obs.Store, ",") == strings.Join(ref.Store.Keys(), ",")
	_ = storeOK
	if split[0]&2 == 0 && len(otherErrs) == 1 && otherErrs[0] == "failed-content-not-found" && isVisitPrefix(obs.Visits, ref.Visits) && subset(gotMissing, refMissing) && subset(obs.Store, ref.Store.Keys()) {
		// The responder does not hold the root: it answers content-not-found and the
		// requestor ends the request with that terminal error; the remainder of the
		// local traversal is not delivered and the per-link missing-block errors are
		// replaced by the terminal error (known finding; see DESIGN 8).
		return "responder-lacks-root/request-ends-with-content-not-found", detail, class
	}
	if len(otherErrs) > 0 {
		kind := otherErrs[0]
		if i := strings.Index(kind, ":"); i > 0 {
			kind = kind[:i]
		}
		return "unexpected-error/" + kind, detail, class
	}
	if gotV != wantV {
		if len(obs.Visits) < len(ref.Visits) {
			// the requestor asks the responder to skip as many leading blocks as it loaded
			// locally; the responder counts the links of *its own* traversal, which is
			// shorter when it lacks one of those blocks (known finding P)
			k := 0
			for k < len(ref.Loads) && ref.Loads[k].From == "local" {
				k++
			}
			lacks := false
			for i := 0; i < k && i < len(ref.Loads); i++ {
				if !rs.Has(ref.Loads[i].Link) {
					lacks = true
				}
			}
			if k > 0 && k < len(ref.Loads) && lacks && subset(gotMissing, append(missingOf(ref, d), remoteOf(ref, d)...)) {
				return "nodes-not-delivered/responder-lacks-block-inside-skipped-prefix", detail, class
			}
			return "nodes-not-delivered", detail, class
		}
		return "nodes-differ", detail, class
	}
	if strings.Join(gotMissing, ";") != strings.Join(refMissing, ";") {
		return "missing-errors-differ", detail, class
	}
	if strings.Join(obs.Store, ",") != strings.Join(ref.Store.Keys(), ",") {
		return "store-differs", detail + fmt.Sprintf("; store has %d blocks, expected %d", len(obs.Store), len(ref.Store.M)), class
	}
	return "", "", class
}

func isVisitPrefix(a, b []harness.Visit) bool {
	if len(a) > len(b) {
		return false
	}
	for i := range a {
		if a[i] != b[i] {
			return false
		}
	}
	return true
}

func subset(a, b []string) bool {
	m := map[string]int{}
	for _, x := range b {
		m[x]++
	}
	for _, x := range a {
		if m[x] == 0 {
			return false
		}
		m[x]--
	}
	return true
}

func missingOf(ref *harness.RefResult, d *harness.DAG) []string {
	var out []string
	for _, m := range ref.Missing {
		out = append(out, "missing:"+d.Name(m.Link)+"@"+m.Path)
	}
	return out
}

// remoteOf: the missing-block errors that would result if remote blocks were not supplied
func remoteOf(ref *harness.RefResult, d *harness.DAG) []string {
	var out []string
	for _, m := range ref.Loads {
		if m.From == "remote" {
			out = append(out, "missing:"+d.Name(m.Link)+"@"+m.Path)
		}
	}
	return out
}

func shorten(s string) string {
	// drop CIDs for readability
	out := []string{}
	for _, p := range strings.Split(s, " | ") {
		if i := strings.Index(p, "=l:"); i >= 0 {
			p = p[:i] + "=link"
		}
		out = append(out, p)
	}
	return strings.Join(out, " | ")
}

func c02Shapes(thorough bool) []harness.Shape {
	if thorough {
		return harness.Shapes(4, 4, true, true, true)
	}
	sh := harness.Shapes(3, 4, true, true, true)
	for _, s := range harness.Shapes(4, 1, false, false, false) {
		if len(s.Blocks) == 4 {
			sh = append(sh, s)
		}
	}
	return sh
}

func runC02(c *core.Ctx) {
	defer c02Sched(c)
	shapes := c02Shapes(c.Thorough())
	sels := harness.Selectors(c.Thorough())
	var idx int64
	for _, sh := range shapes {
		d := harness.Build(sh, "")
		for _, sel := range sels {
			for _, split := range harness.Splits(len(sh.Blocks)) {
				idx++
				if !c.Mine(idx) {
					continue
				}
				if c.Expired() {
					c.Res.Exhaustive = false
					c.Note("deadline hit")
					return
				}
				sig, what, class := c02Check(d, sel, split)
				c.Res.Evaluations++
				c.Class(class)
				if idx%9973 == 1 {
					c.Sample(fmt.Sprintf("%s | %s | %s", sh, sel.Name, split))
				}
				if sig != "" {
					c.Violate(sig, what, c02Case{sh, sel.Name, split})
				}
			}
		}
	}
}

// c02Sched: schedule-level pass. A few mixed splits are run under every schedule
// within the deviation bound (after set-up) with the same reference oracle.
func c02Sched(c *core.Ctx) {
	type sc struct {
		sh    harness.Shape
		split harness.Split
	}
	tree := harness.Shape{Name: "tree3", Blocks: []harness.BlockSpec{{Edges: []harness.Edge{{To: 1}, {To: 2, Form: harness.Inline}}}, {}, {}}}
	chain := harness.Shape{Name: "chain3", Blocks: []harness.BlockSpec{{Edges: []harness.Edge{{To: 1}}}, {Edges: []harness.Edge{{To: 2, Form: harness.Nested}}}, {}}}
	diamond := harness.Shape{Name: "diamond4", Blocks: []harness.BlockSpec{{Edges: []harness.Edge{{To: 1}, {To: 2, Form: harness.List}}}, {Edges: []harness.Edge{{To: 3}}}, {Edges: []harness.Edge{{To: 3, Form: harness.Inline}}}, {}}}
	cases := []sc{
		{tree, harness.Split{2, 2, 2}}, {tree, harness.Split{3, 2, 1}}, {tree, harness.Split{2, 0, 2}}, {tree, harness.Split{3, 1, 2}},
		{chain, harness.Split{2, 2, 2}}, {chain, harness.Split{3, 2, 2}}, {chain, harness.Split{2, 3, 2}}, {chain, harness.Split{2, 2, 0}},
		{diamond, harness.Split{2, 2, 2, 2}}, {diamond, harness.Split{3, 2, 1, 2}}, {diamond, harness.Split{2, 2, 2, 0}},
	}
	bound := 1
	if c.Thorough() {
		bound = 2
	}
	sel := findSel("all-d10")
	for i, cs := range cases {
		if !c.Mine(int64(i)) {
			continue
		}
		if c.Expired() {
			c.Res.Exhaustive = false
			return
		}
		cs := cs
		d := harness.Build(cs.sh, "")
		qs, rs := d.Stores(cs.split)
		ref := harness.Reference(d.Root, sel.Node, harness.RefOpts{Local: qs, Remote: rs, RemoteNeedsPath: true})
		label := c02Case{cs.sh, sel.Name, cs.split}
		c.Explore(core.ExploreOpts{MaxBound: bound, Cost: core.Deviation, Label: label, NoShard: true, MaxExecs: 40000}, func(cfg vsched.Config) core.Exec {
			obs, s := runExchangeMarked(cfg, d, sel, cs.split)
			x := core.Exec{Sched: s, Outcome: fmt.Sprintf("schedule-level %s %s wire=%d", cs.sh.Name, cs.split, len(obs.Wire))}
			x.Viol = c02SchedJudge(d, ref, label, obs)
			return x
		})
		c.ExploreSlow(label, vsched.Config{}, []int{0, 150}, func(cfg vsched.Config) core.Exec {
			obs, s := runExchangeMarked(cfg, d, sel, cs.split)
			return core.Exec{Sched: s, Outcome: fmt.Sprintf("%s %s wire=%d", cs.sh.Name, cs.split, len(obs.Wire)), Viol: c02SchedJudge(d, ref, label, obs)}
		})
	}
}

func c02SchedJudge(d *harness.DAG, ref *harness.RefResult, label c02Case, obs *exchangeObs) *core.Violation {
	var gotMissing, other []string
	for _, e := range obs.Errs {
		if strings.HasPrefix(e, "missing:") {
			gotMissing = append(gotMissing, e)
		} else {
			other = append(other, e)
		}
	}
	sort.Strings(gotMissing)
	want := missingOf(ref, d)
	sort.Strings(want)
	detail := fmt.Sprintf("shape %s split %s under a non-default schedule: delivered [%s] expected [%s]; errors %v expected missing %v", label.Shape, label.Split, shorten(harness.VisitsString(obs.Visits)), shorten(harness.VisitsString(ref.Visits)), obs.Errs, want)
	switch {
	case obs.Panic != "":
		return &core.Violation{Signature: "panic/schedule", What: obs.Panic, Replay: label}
	case !obs.Closed:
		return &core.Violation{Signature: "channels-not-closed/schedule", What: detail, Replay: label}
	case len(other) > 0:
		return &core.Violation{Signature: "unexpected-error/schedule", What: detail, Replay: label}
	case harness.VisitsString(obs.Visits) != harness.VisitsString(ref.Visits):
		return &core.Violation{Signature: "nodes-differ/schedule", What: detail, Replay: label}
	case strings.Join(gotMissing, ";") != strings.Join(want, ";"):
		return &core.Violation{Signature: "missing-errors-differ/schedule", What: detail, Replay: label}
	case strings.Join(obs.Store, ",") != strings.Join(ref.Store.Keys(), ","):
		return &core.Violation{Signature: "store-differs/schedule", What: detail, Replay: label}
	}
	return nil
}

// runExchangeMarked is runExchange with the set-up excluded from exploration.
func runExchangeMarked(cfg vsched.Config, d *harness.DAG, sel harness.SelSpec, split harness.Split) (*exchangeObs, *vsched.Sched) {
	obs := &exchangeObs{}
	s := vsched.Run(cfg, func() {
		f := harness.NewFixture(false)
		qs, rs := d.Stores(split)
		q := f.AddNode(peer.ID("Q"), qs)
		r := f.AddNode(peer.ID("R"), rs)
		vsched.Quiesce()
		vsched.Mark()
		res := q.Request(f, r.ID, d.Root, sel.Node, harness.MkID(1))
		vsched.Quiesce()
		obs.Visits = append(obs.Visits, res.Visits...)
		obs.Errs = res.ErrStrings(d)
		obs.Closed = res.Closed()
		obs.Store = qs.Keys()
		obs.Wire = f.Net.Wire
		f.Cancel()
	})
	if s.Panic != nil {
		obs.Panic = fmt.Sprint(s.Panic)
	}
	return obs, s
}

func init() {
	core.Register(&core.Prop{ID: "C02", Level: "exploration",
		Rule:        "every DAG shape of the catalogue (all reachable edge sets over <=N blocks x link forms direct/inline/nested/list x field order x raw leaves x duplicate links) x selector catalogue x every 4^N split of blocks between requestor and responder store; one real two-node exchange each (real wire encoding) under the default schedule; plus 11 mixed splits of three shapes under every schedule within deviation bound 1 (thorough 2) after set-up; a class is a distinct (#visits,#missing,#remote blocks,root-miss) reference outcome",
		Assumptions: []string{"go-ipld-prime's walker is the reference for selector traversal", "default schedule only (schedules are C20/C06's subject)", "fake network is FIFO per link and lossless"},
		Run:         runC02, QuickBudget: 300, ThoroughBudget: 2400,
		Replay: func(raw json.RawMessage) string {
			var w struct {
				Label  *c02Case `json:"label"`
				Prefix []int    `json:"prefix"`
			}
			if json.Unmarshal(raw, &w) == nil && w.Label != nil && len(w.Label.Shape.Blocks) > 0 {
				d := harness.Build(w.Label.Shape, "")
				sel := findSel(w.Label.Sel)
				qs, rs := d.Stores(w.Label.Split)
				ref := harness.Reference(d.Root, sel.Node, harness.RefOpts{Local: qs, Remote: rs, RemoteNeedsPath: true})
				obs, _ := runExchangeMarked(core.CfgFromReplay(raw), d, sel, w.Label.Split)
				if v := c02SchedJudge(d, ref, *w.Label, obs); v != nil {
					return v.Signature + ": " + v.What
				}
				return "ok"
			}
			var cs c02Case
			if err := json.Unmarshal(raw, &cs); err != nil {
				return err.Error()
			}
			d := harness.Build(cs.Shape, "")
			sig, what, _ := c02Check(d, findSel(cs.Sel), cs.Split)
			if sig == "" {
				return "ok"
			}
			return sig + ": " + what
		}})
}
