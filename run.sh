#!/bin/bash
# run.sh <ID> <quick|thorough> | run.sh replay <file> | run.sh build | run.sh setup
# Regenerates the instrumentation overlay from /repo's current working tree,
# rebuilds the check binary, runs the check. Exit: 0 held, 1 violation, 2 engine error.
set -u
VERIF="$(cd "$(dirname "$0")" && pwd)"
REPO="${VERIF_REPO:-/repo}"
export VERIF_DIR="$VERIF"
export GOFLAGS=-mod=mod GOPROXY=off GOTOOLCHAIN=local GOLOG_LOG_LEVEL=fatal
GO=go1.26.8
W="$VERIF/.work"
MODFLAG=""
if [ -n "${VERIF_REPO:-}" ] && [ "$REPO" != "/repo" ]; then
  # maintenance: run the checks against another copy of the repository (a scratch worktree holding a
  # seeded change) without touching /repo: separate work dir, go.mod replaced to that copy
  W="$VERIF/.work/alt-$(echo "$REPO" | md5sum | cut -c1-8)"
  mkdir -p "$W"
  sed "s|=> /repo|=> $REPO|" "$VERIF/go.mod" > "$W/alt.mod"; cp "$VERIF/go.sum" "$W/alt.sum" 2>/dev/null
  MODFLAG="-modfile=$W/alt.mod"
fi
mkdir -p "$W/bin" "$VERIF/evidence" "$VERIF/out"
build() {
  ( cd "$VERIF" && cp "$REPO/go.sum" go.sum 2>/dev/null
    # the rewriter itself is plain Go (no overlay needed)
    if [ ! -x "$W/bin/vrewrite" ] || [ cmd/vrewrite/main.go -nt "$W/bin/vrewrite" ]; then
      $GO build -o "$W/bin/vrewrite" ./cmd/vrewrite || exit 2
    fi
    rm -rf "$W/ov"
    "$W/bin/vrewrite" -repo "$REPO" -out "$W/ov" -shimdir "$VERIF/shim" -also "$VERIF/harness,$VERIF/props" || exit 2
    $GO build $MODFLAG -overlay "$W/ov/overlay.json" -o "$W/bin/check" ./cmd/check || exit 2
  )
}
case "${1:-}" in
  setup)
    build || { echo "ENGINE-ERROR: build failed"; exit 2; }
    exit 0;;
  build)
    build || { echo "ENGINE-ERROR: build failed"; exit 2; }
    exit 0;;
  replay)
    build || { echo "ENGINE-ERROR: build failed"; exit 2; }
    exec "$W/bin/check" replay "$2";;
  "")
    echo "usage: run.sh <ID> <quick|thorough>"; exit 2;;
  *)
    # a flock serialises concurrent builds of the shared overlay dir
    exec 9>"$W/build.lock"; flock 9
    build || { echo "ENGINE-ERROR: build failed (does /repo compile?)"; exit 2; }
    cp "$W/bin/check" "$W/bin/check.$$"; flock -u 9
    "$W/bin/check.$$" "$1" "${2:-quick}"; rc=$?
    rm -f "$W/bin/check.$$"
    exit $rc;;
esac
